#!/usr/bin/env python3
"""Collects the seeded changes produced by the sub-agents (under /tmp/seed/<prop>/SEED/<n>) into /verif/seeded/<id>/
(patch.diff, the demonstration, NOTES.md, meta.json) using the verification and evaluation logs, and prints the DESIGN table."""
import os, re, json, glob, shutil, sys
evals = {}
for log in sorted(glob.glob('/tmp/probe/seed_eval_*.log')):
    for line in open(log):
        m = re.match(r'(C\d\d[ab]?)_SEED_(\d) =>(.*)', line.strip())
        if not m: continue
        sid = f"{m.group(1)}-{m.group(2)}"
        res = re.findall(r'\[(C\d\d) rc=(\d+) ?([^\]]*)\]', m.group(3))
        evals.setdefault(sid, {})
        for prop, rc, viol in res:
            evals[sid][prop] = {'exit': int(rc), 'first_violation': viol.strip()}
verif = {}
if os.path.exists('/tmp/probe/seed_verify.log'):
    for line in open('/tmp/probe/seed_verify.log'):
        m = re.match(r'/tmp/seed/(C\d\d[ab]?)/SEED/(\d): (.*)', line.strip())
        if m: verif[f"{m.group(1)}-{m.group(2)}"] = m.group(3)
suite = {}
for log in ['/tmp/probe/seed_suite_nonstore.log', '/tmp/probe/seed_suite_store.log']:
    if os.path.exists(log):
        for line in open(log):
            m = re.match(r'/tmp/seed/(C\d\d[ab]?)/SEED/(\d) suite\((\w+)\) exit=(\d+)', line.strip())
            if m: suite.setdefault(f"{m.group(1)}-{m.group(2)}", {})[m.group(3)] = 'pass' if m.group(4) == '0' else 'FAIL'
rows = []
for d in sorted(glob.glob('/tmp/seed/C*/SEED/*')):
    m = re.match(r'/tmp/seed/(C\d\d)([ab]?)/SEED/(\d+)$', d)
    if not m or not os.path.exists(d + '/patch.diff'): continue
    prop, sub, n = m.groups(); sid = f"{prop}{sub}-{n}"
    out = f"/verif/seeded/{sid}"
    if os.path.isdir(out): shutil.rmtree(out)
    os.makedirs(out)
    shutil.copy(d + '/patch.diff', out)
    for f in glob.glob(d + '/*.go'): shutil.copy(f, out)
    if os.path.exists(d + '/NOTES.md'): shutil.copy(d + '/NOTES.md', out)
    notes = open(d + '/NOTES.md').read() if os.path.exists(d + '/NOTES.md') else ''
    files = re.findall(r'^\+\+\+ b/(\S+)', open(d + '/patch.diff').read(), re.M)
    ev = evals.get(sid, {})
    caught = [p for p, r in ev.items() if r['exit'] == 1]
    meta = {'id': sid, 'breaks_property': prop, 'files_changed': files,
            'needs_to_manifest': 'see NOTES.md (written by the sub-agent that produced the change)',
            'produced_by': 'independent sub-agent given only the property text and a scratch worktree',
            'confirmed_here': verif.get(sid, 'apply/build/demo not re-run in this session'),
            'existing_suite_with_change': suite.get(sid, {}), 'checks_run': ev, 'caught_by': caught, 'detected': bool(caught)}
    json.dump(meta, open(out + '/meta.json', 'w'), indent=1)
    first = ''
    for p in caught:
        first = ev[p]['first_violation']; break
    rows.append((sid, ', '.join(files).replace('ddsketch/', ''), 'yes: ' + ', '.join(caught) if caught else ('NO' if ev else 'not evaluated'), first))
print('| Seed | Files | Detected by | First violated obligation |\n|---|---|---|---|')
for r in rows: print('| %s | %s | %s | %s |' % r)
print('\n%d seeds, %d detected' % (len(rows), sum(1 for r in rows if r[2].startswith('yes'))))
