#!/bin/bash
# Builds the symbolic-execution engine from /verif/engine (offline; x/tools v0.29.0 from the module cache).
set -e
cd "$(dirname "$0")"
export GOFLAGS=-mod=mod GOPROXY=off GOSUMDB=off GOTOOLCHAIN=local
mkdir -p bin out evidence
(cd engine && go build -o ../bin/gosym .)
echo "built bin/gosym"
