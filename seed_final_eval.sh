#!/bin/bash
# usage: seed_final_eval.sh <outdir (/tmp/seed2out|/tmp/seed3out)> <prop> <n> [checkprop]
# Evaluation of one seeded change with the registered quick check of <checkprop> (default: <prop>) as committed in /verif,
# against a scratch worktree of /repo with the change applied. Appends one line to /tmp/seed2res/final.log.
out="$1"; prop="$2"; n="$3"; cp="${4:-$2}"
wt=$(mktemp -d /tmp/fewt.XXXXXX); rmdir $wt
git -C /repo worktree add -q --detach $wt HEAD || exit 3
trap 'git -C /repo worktree remove --force $wt >/dev/null 2>&1' EXIT
( cd $wt && git apply $out/$prop/$n/patch.diff ) || { echo "$(basename $out) $prop-$n APPLY-FAILED" >> /tmp/seed2res/final.log; exit 3; }
cd /verif
log=/tmp/seed2res/final_$(basename $out)_$prop-$n-$cp.out
VERIF_BUDGET_S=400 timeout 3000 ./check $cp -no-evidence -repo $wt > $log 2>&1; rc=$?
v=$(grep -m1 -A1 '^VIOLATION' $log | tail -1 | sed 's/^ *//' | cut -c1-170)
echo "$(basename $out) $prop-$n check=$cp rc=$rc $v" >> /tmp/seed2res/final.log
