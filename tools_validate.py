#!/usr/bin/env python3
# validates MANIFEST.json and every evidence/*.json against the given schemas (python3-vt has jsonschema)
import json, sys, glob, jsonschema
ok = True
m = json.load(open('/verif/MANIFEST.json'))
try:
    jsonschema.validate(m, json.load(open('/root/.vp/MANIFEST.schema.json')))
    print('MANIFEST ok:', len(m['checks']), 'checks;', len(m.get('not_applicable', [])), 'not applicable')
except Exception as e:
    ok = False; print('MANIFEST INVALID', e)
sc = json.load(open('/root/.vp/EVIDENCE.schema.json'))
for f in sorted(glob.glob('/verif/evidence/*.json')):
    try:
        jsonschema.validate(json.load(open(f)), sc); print('ok', f)
    except Exception as e:
        ok = False; print('INVALID', f, str(e)[:300])
sys.exit(0 if ok else 1)
