#!/bin/bash
# usage: eval_seed.sh <patch.diff> <prop> [<prop> ...]
# Applies the seeded change in a scratch worktree (outside /repo and /verif), runs the quick checks against it
# (-repo <worktree>), removes the worktree. /repo itself is never touched.
p="$1"; shift
wt=$(mktemp -d /tmp/seedeval.XXXXXX); rmdir $wt
git -C /repo worktree add -q --detach $wt HEAD || exit 3
trap 'git -C /repo worktree remove --force $wt >/dev/null 2>&1' EXIT
( cd $wt && git apply "$p" ) || { echo "cannot apply $p"; exit 3; }
res=""
tag=$(echo $p | sed 's|/tmp/seed/||; s|/patch.diff||; s|/|_|g')
for prop in "$@"; do
  cd /verif && VERIF_BUDGET_S=${SEED_BUDGET:-300} timeout 2400 ./check $prop -no-evidence -repo $wt > /tmp/evalseed_${tag}_$prop.out 2>&1; rc=$?
  v=$(grep -m1 -A1 '^VIOLATION' /tmp/evalseed_${tag}_$prop.out | tail -1 | sed 's/^ *//' | cut -c1-120)
  res="$res [$prop rc=$rc $v]"
done
echo "$tag =>$res"
