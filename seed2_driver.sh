#!/bin/bash
# usage: seed2_driver.sh <PROP> <n>   — round-2 seeded change: confirm (apply/build/demo both ways/existing suites) and evaluate
# the property's registered quick check against a scratch worktree with the change applied. Writes /tmp/seed2res/<PROP>-<n>.json
set -u
prop="$1"; n="$2"
src=${SEEDBASE:-/tmp/seed2out}/$prop/$n
pref=${SEEDPREF:-}
res=/tmp/seed2res; mkdir -p $res
export GOFLAGS=-mod=mod GOPROXY=off GOSUMDB=off GOTOOLCHAIN=local
[ -f $src/patch.diff ] || { echo "$prop-$n: no patch"; exit 3; }
demo=$(ls $src/*_test.go | head -1)
demodir=$(head -5 $demo | grep -oE '(ddsketch(/[a-z]+)?|dataset)' | head -1)
wt=$(mktemp -d /tmp/s2wt.XXXXXX); rmdir $wt
git -C /repo worktree add -q --detach $wt HEAD || exit 3
trap 'git -C /repo worktree remove --force $wt >/dev/null 2>&1' EXIT
cd $wt
tests=$(grep -oE '^func (Test[A-Za-z0-9_]+)' $demo | awk '{print $2}' | paste -sd'|')
cp $demo $demodir/zz_seed_demo_test.go
timeout 600 go test -vet=off -count=1 ./$demodir/ -run "^($tests)\$" > $res/$pref$prop-$n.without.log 2>&1; rc_without=$?
git apply $src/patch.diff || { echo "$prop-$n APPLY-FAILED"; exit 3; }
go build ./... > $res/$pref$prop-$n.build.log 2>&1; rc_build=$?
timeout 600 go test -vet=off -count=1 ./$demodir/ -run "^($tests)\$" > $res/$pref$prop-$n.with.log 2>&1; rc_with=$?
rm $demodir/zz_seed_demo_test.go
pk="./dataset/ ./ddsketch/ ./ddsketch/encoding/ ./ddsketch/mapping/ ./ddsketch/stat/"
if git diff --name-only | grep -q 'ddsketch/store/\|ddsketch/encoding/'; then pk="$pk ./ddsketch/store/"; fi
timeout 2400 go test -vet=off -count=1 -timeout 35m $pk > $res/$pref$prop-$n.suite.log 2>&1; rc_suite=$?
cd /verif
if [ -n "${SKIPCHECK:-}" ]; then rc=-1; echo skipped > $res/$pref$prop-$n.check.out; else VERIF_BUDGET_S=300 timeout 2400 ./check $prop -no-evidence -repo $wt > $res/$pref$prop-$n.check.out 2>&1; rc=$?; fi
v=$(grep -m1 -A1 '^VIOLATION' $res/$pref$prop-$n.check.out | tail -1 | sed 's/^ *//' | cut -c1-160)
python3 - "$pref$prop" "$n" "$rc_build" "$rc_without" "$rc_with" "$rc_suite" "$pk" "$rc" "$v" <<'P'
import sys,json
prop,n,b,wo,wi,su,pk,rc,v=sys.argv[1:]
json.dump({'seed':f'{prop}-r2-{n}','build':int(b),'demo_without':int(wo),'demo_with':int(wi),'suite_exit':int(su),'suite_pkgs':pk,'check':{prop.replace('r3_',''):{'exit':int(rc),'first_violation':v}}},open(f'/tmp/seed2res/{prop}-{n}.json','w'),indent=1)
P
echo "$prop-$n build=$rc_build demo_without=$rc_without demo_with=$rc_with suite=$rc_suite check[$prop]=$rc $v"
