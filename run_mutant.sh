#!/bin/bash
# usage: run_mutant.sh <patch> <prop> [check args]   (development aid; applies to /repo, runs the check, reverts)
p="$1"; prop="$2"; shift 2
cd /repo && git apply "$p" || { echo "cannot apply $p"; exit 3; }
cd /verif && ./check "$prop" -no-evidence "$@" > /tmp/mut.out 2>&1; rc=$?
cd /repo && git checkout -- . 
echo "$(basename $p) prop=$prop exit=$rc $(grep -c '^VIOLATION' /tmp/mut.out) violations; $(grep -m1 -A1 '^VIOLATION' /tmp/mut.out | tail -1)"
exit 0
