//go:build verif

package dataset

import "math"

// C20 — the reference dataset returns exact order statistics.

// x is the k-th order statistic (0-based) of vals iff x is one of them and
// #{v < x} <= k < #{v <= x}; written without sorting.
func zzIsOrderStat(vals []float64, x float64, k int) bool {
	member := false
	less, leq := 0, 0
	for _, v := range vals {
		member = zzvOr(member, v == x)
		less += zzvIteInt(v < x, 1, 0)
		leq += zzvIteInt(v <= x, 1, 0)
	}
	return zzvAnd(member, zzvAnd(less <= k, k < leq))
}

func zzValues(n int) []float64 {
	vals := make([]float64, n)
	for i := range vals {
		vals[i] = zzvFloat64("v")
		zzvAssume(vals[i] == vals[i]) // NaN values are outside the claim
	}
	return vals
}

func zzC20Quantiles(n int) {
	zzvBound("dataset", "n values (all non-NaN float64 bit patterns, duplicates, infinities, -0), every q (all bit patterns incl. NaN); the rank expression q*(n-1) is read in float64 arithmetic, as the helper computes it")
	vals := zzValues(n)
	d := NewDataset()
	for _, v := range vals {
		d.Add(v)
	}
	q := zzvFloat64("q")
	zzvCover("built")
	lo := d.LowerQuantile(q)
	hi := d.UpperQuantile(q)
	zzvAssert("quantile-is-lower", zzvSameBits(d.Quantile(q), lo) || d.Quantile(q) == lo)
	if !(q >= 0 && q <= 1) || n == 0 {
		zzvAssert("nan-when-q-invalid-or-empty", lo != lo && hi != hi)
		return
	}
	rank := q * float64(n-1)
	kLo := int(math.Floor(rank))
	kHi := int(math.Ceil(rank))
	zzvAssert("lower-is-floor-order-statistic", zzIsOrderStat(vals, lo, kLo))
	zzvAssert("upper-is-ceil-order-statistic", zzIsOrderStat(vals, hi, kHi))
	zzvAssert("min-exact", zzIsOrderStat(vals, d.Min(), 0))
	zzvAssert("max-exact", zzIsOrderStat(vals, d.Max(), n-1))
	zzvAssert("count-exact", d.Count == float64(n) && len(d.Values) == n)
}

func ZZ_C20_quantiles_n0() { zzC20Quantiles(0) }
func ZZ_C20_quantiles_n1() { zzC20Quantiles(1) }
func ZZ_C20_quantiles_n2() { zzC20Quantiles(2) }
func ZZ_C20_quantiles_n3() { zzC20Quantiles(3) }
func ZZ_C20_quantiles_n4_T() { zzC20Quantiles(4) }

// additions after a query (stale sort flag) and merges
func zzC20History(a, b int) {
	zzvBound("histories", "a values, a query, b more values, a second query (a+b <= 3 quick); merge of two datasets")
	first := zzValues(a)
	second := zzValues(b)
	all := append(append([]float64{}, first...), second...)
	n := a + b
	q := zzvFloat64("q")
	zzvAssume(q >= 0 && q <= 1)
	d := NewDataset()
	for _, v := range first {
		d.Add(v)
	}
	d.LowerQuantile(q) // sorts
	if zzvChoose("viaMerge", 2) == 1 {
		o := NewDataset()
		for _, v := range second {
			o.Add(v)
		}
		o.UpperQuantile(q)
		d.Merge(o)
		zzvAssert("merge-argument-unchanged", len(o.Values) == b && o.Count == float64(b))
	} else {
		for _, v := range second {
			d.Add(v)
		}
	}
	zzvCover("history")
	rank := q * float64(n-1)
	zzvAssert("lower-after-history", zzIsOrderStat(all, d.LowerQuantile(q), int(math.Floor(rank))))
	zzvAssert("upper-after-history", zzIsOrderStat(all, d.UpperQuantile(q), int(math.Ceil(rank))))
	zzvAssert("min-after-history", zzIsOrderStat(all, d.Min(), 0))
	zzvAssert("max-after-history", zzIsOrderStat(all, d.Max(), n-1))
	zzvAssert("count-after-history", d.Count == float64(n))
}

func ZZ_C20_history_1_1() { zzC20History(1, 1) }
func ZZ_C20_history_2_1() { zzC20History(2, 1) }
func ZZ_C20_history_1_2() { zzC20History(1, 2) }
func ZZ_C20_history_2_2_T() { zzC20History(2, 2) }

// Sum is exact on dyadic data (where compensated summation has nothing to compensate)
func ZZ_C20_sum_exact_on_dyadic() {
	n := 1 + zzvChoose("n", 4)
	d := NewDataset()
	want := 0.0
	for i := 0; i < n; i++ {
		v := zzvDyadic("v", 6, -(1 << 30), 1<<30)
		d.Add(v)
		want += v
	}
	zzvCover("sum")
	zzvAssert("sum-exact", d.Sum() == want)
}

// extremes asked BEFORE any quantile query (the dataset is still unsorted), in either order
func zzC20ExtremesFirst(n int) {
	zzvBound("extremes first", "n values (all non-NaN float64 bit patterns), Min/Max asked before any quantile query, in either order, then again after a quantile query")
	vals := zzValues(n)
	d := NewDataset()
	for _, v := range vals {
		d.Add(v)
	}
	zzvCover("built")
	if zzvChoose("maxFirst", 2) == 1 {
		zzvAssert("max-exact-on-unsorted-data", zzIsOrderStat(vals, d.Max(), n-1))
		zzvAssert("min-exact-after-max", zzIsOrderStat(vals, d.Min(), 0))
	} else {
		zzvAssert("min-exact-on-unsorted-data", zzIsOrderStat(vals, d.Min(), 0))
		zzvAssert("max-exact-after-min", zzIsOrderStat(vals, d.Max(), n-1))
	}
	zzvAssert("upper-quantile-1-is-max", zzvSameBits(d.UpperQuantile(1), d.Max()) || d.UpperQuantile(1) == d.Max())
	zzvAssert("lower-quantile-0-is-min", zzvSameBits(d.LowerQuantile(0), d.Min()) || d.LowerQuantile(0) == d.Min())
	zzvAssert("values-kept", len(d.Values) == n && d.Count == float64(n))
}
func ZZ_C20_extremes_first_n1() { zzC20ExtremesFirst(1) }
func ZZ_C20_extremes_first_n2() { zzC20ExtremesFirst(2) }
func ZZ_C20_extremes_first_n3() { zzC20ExtremesFirst(3) }

// merging (also into an EMPTY dataset) gives the receiver its own memory: later additions to either
// side, and the re-sorting a query triggers, never reach the other
func zzC20MergeIndependent(a, b int) {
	zzvBound("merge independence", "receiver with a values (a may be 0), argument with b values, argument optionally queried before; after the merge one more value is added to each side and both are queried")
	first := zzValues(a)
	second := zzValues(b)
	d, o := NewDataset(), NewDataset()
	for _, v := range first {
		d.Add(v)
	}
	for _, v := range second {
		o.Add(v)
	}
	if zzvChoose("argumentQueriedBefore", 2) == 1 {
		o.Min()
	}
	d.Merge(o)
	zzvCover("merged")
	zzvAssert("receiver-and-argument-share-no-memory", zzvDisjoint(d, o))
	x, y := zzValues(1)[0], zzValues(1)[0]
	if zzvChoose("order", 2) == 1 {
		d.Add(x)
		o.Add(y)
	} else {
		o.Add(y)
		d.Add(x)
	}
	allD := append(append(append([]float64{}, first...), second...), x)
	allO := append(append([]float64{}, second...), y)
	zzvAssert("argument-min-after", zzIsOrderStat(allO, o.Min(), 0))
	zzvAssert("receiver-min-after", zzIsOrderStat(allD, d.Min(), 0))
	zzvAssert("receiver-max-after", zzIsOrderStat(allD, d.Max(), len(allD)-1))
	zzvAssert("argument-max-after", zzIsOrderStat(allO, o.Max(), len(allO)-1))
	zzvAssert("counts-after", d.Count == float64(len(allD)) && o.Count == float64(len(allO)) && len(d.Values) == len(allD) && len(o.Values) == len(allO))
}
func ZZ_C20_merge_into_empty_independent_1() { zzC20MergeIndependent(0, 1) }
func ZZ_C20_merge_into_empty_independent_2() { zzC20MergeIndependent(0, 2) }
func ZZ_C20_merge_independent_1_1()          { zzC20MergeIndependent(1, 1) }

// round 4: Sum after a history in which a query (which sorts) is followed by further additions - in
// increasing order, the order that keeps the slice sorted - or a merge; Sum must reflect every value
func ZZ_C20_sum_after_query_and_more_additions() {
	zzvBound("sum histories", "a = 1..2 dyadic values, a query, b = 1..2 further dyadic values each at least the current maximum (and, separately, unconstrained), added directly or merged from another dataset; Sum asked before and after")
	a, b := 1+zzvChoose("a", 2), 1+zzvChoose("b", 2)
	d := NewDataset()
	want := 0.0
	var last float64
	for i := 0; i < a; i++ {
		v := zzvDyadic("v", 4, -(1 << 20), 1<<20)
		if i > 0 {
			zzvAssume(v >= last)
		}
		last = v
		d.Add(v)
		want += v
	}
	switch zzvChoose("query", 3) {
	case 0:
		d.Max()
	case 1:
		zzvAssert("sum-before", d.Sum() == want)
	case 2:
		d.LowerQuantile(0.5)
	}
	inOrder := zzvChoose("inOrder", 2) == 1
	viaMerge := zzvChoose("viaMerge", 2) == 1
	o := NewDataset()
	for i := 0; i < b; i++ {
		v := zzvDyadic("w", 4, -(1 << 20), 1<<20)
		if inOrder {
			zzvAssume(v >= last)
			last = v
		}
		if viaMerge {
			o.Add(v)
		} else {
			d.Add(v)
		}
		want += v
	}
	if viaMerge {
		d.Merge(o)
	}
	zzvCover("history")
	zzvAssert("sum-reflects-every-value", d.Sum() == want)
	zzvAssert("count-reflects-every-value", d.Count == float64(a+b))
	zzvAssert("sum-is-repeatable", d.Sum() == want)
}
