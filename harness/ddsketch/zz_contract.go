//go:build verif

package ddsketch

import (
	"math"

	"github.com/DataDog/sketches-go/ddsketch/mapping"
	"github.com/DataDog/sketches-go/ddsketch/pb/sketchpb"
)

// zzContractMapping: an index mapping known only through the contract that C03 states and checks for
// the real mappings:
//   - Index is monotone and fits int32;
//   - Value is positive, finite and strictly increasing in the index;
//   - Value(Index(v)) lies in the accuracy band of v:  lo(v) <= Value(Index(v)) <= hi(v),
//     where lo and hi are abstract band functions with 0 < lo(v) <= v <= hi(v). The real band is
//     lo(v) = v*(1-a), hi(v) = v*(1+a) with a = alpha+1e-12; every conclusion drawn here holds for
//     any band, in particular that one (no floating-point multiplication is needed to state it).
// The sketch-level properties C01/C11/C12 are then compositions: "for every mapping satisfying the
// contract, the sketch logic is right".
type zzContractMapping struct {
	min, max float64
	vs       []float64
	is       []int
	js       []int
	xs       []float64
}

func zzContract() *zzContractMapping {
	m := &zzContractMapping{min: zzvFloat64("minIndexable"), max: zzvFloat64("maxIndexable")}
	zzvAssume(zzvAnd(m.min > 0, zzvAnd(m.min < m.max, m.max < math.Inf(1))))
	return m
}

func zzLo(v float64) float64 { return zzvUFF64F64("bandLo", v) }
func zzHi(v float64) float64 { return zzvUFF64F64("bandHi", v) }

// band assumptions for a positive magnitude v
func zzBand(v float64) {
	zzvAssume(zzvAnd(zzLo(v) > 0, zzvAnd(zzLo(v) <= v, zzvAnd(v <= zzHi(v), zzHi(v) < math.Inf(1)))))
}

// within: r is within the accuracy band of x (signed; x == 0 requires r == 0)
func zzWithinBand(r, x float64) bool {
	pos := zzvAnd(x > 0, zzvAnd(zzLo(x) <= r, r <= zzHi(x)))
	neg := zzvAnd(x < 0, zzvAnd(-zzHi(-x) <= r, r <= -zzLo(-x)))
	zero := zzvAnd(x == 0, r == 0)
	return zzvOr(pos, zzvOr(neg, zero))
}

func (m *zzContractMapping) Equals(o mapping.IndexMapping) bool { return o == mapping.IndexMapping(m) }

func (m *zzContractMapping) Index(v float64) int {
	i := zzvUFF64MInt("Index", v, math.MinInt32, math.MaxInt32)
	for k := range m.vs {
		zzvAssume(zzvAnd(zzvImplies(m.vs[k] <= v, m.is[k] <= i), zzvImplies(v <= m.vs[k], i <= m.is[k])))
	}
	m.vs = append(m.vs, v)
	m.is = append(m.is, i)
	// accuracy contract at this value
	zzBand(v)
	x := m.Value(i)
	zzvAssume(zzvAnd(zzLo(v) <= x, x <= zzHi(v)))
	return i
}

func (m *zzContractMapping) Value(i int) float64 {
	x := zzvUFIntF64("Value", i)
	zzvAssume(zzvAnd(x > 0, x < math.Inf(1)))
	for k := range m.js {
		zzvAssume(zzvAnd(zzvImplies(m.js[k] < i, m.xs[k] < x), zzvImplies(i < m.js[k], x < m.xs[k])))
	}
	m.js = append(m.js, i)
	m.xs = append(m.xs, x)
	return x
}
func (m *zzContractMapping) LowerBound(i int) float64        { return zzvUFIntF64("LowerBound", i) }
func (m *zzContractMapping) RelativeAccuracy() float64       { return 0.01 }
func (m *zzContractMapping) MinIndexableValue() float64      { return m.min }
func (m *zzContractMapping) MaxIndexableValue() float64      { return m.max }
func (m *zzContractMapping) ToProto() *sketchpb.IndexMapping { return nil }
func (m *zzContractMapping) EncodeProto(b *sketchpb.IndexMappingBuilder) {}
func (m *zzContractMapping) Encode(b *[]byte)                {}

// trackable input values: every float64 with |v| <= MaxIndexableValue
func zzTrackable(m *zzContractMapping, name string) float64 {
	v := zzvFloat64(name)
	zzvAssume(zzvAnd(v >= -m.max, v <= m.max))
	return v
}

// the value as the sketch sees it: magnitudes at or below MinIndexableValue count as 0
func zzEffective(m *zzContractMapping, v float64) float64 {
	return zzvIteF64(zzvOr(v > m.min, v < -m.min), v, 0)
}

// x is the k-th order statistic of vals (see the dataset harness); NaN-free
func zzIsOrderStat(vals []float64, x float64, k int) bool {
	member := false
	less, leq := 0, 0
	for _, v := range vals {
		member = zzvOr(member, v == x)
		less += zzvIteInt(v < x, 1, 0)
		leq += zzvIteInt(v <= x, 1, 0)
	}
	return zzvAnd(member, zzvAnd(less <= k, k < leq))
}
