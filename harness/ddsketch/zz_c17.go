//go:build verif

package ddsketch

import (
	"math"

	"github.com/DataDog/sketches-go/ddsketch/mapping"
	"github.com/DataDog/sketches-go/ddsketch/pb/sketchpb"
	"github.com/DataDog/sketches-go/ddsketch/store"
)

// C17 — change of mapping / unit: the STRUCTURAL part (what the solvers can decide):
// identity case is an exact independent copy; the result carries the requested mapping and the zero
// weight; the source is untouched; weight only goes to target bins inside the loop's window.
// Weight conservation up to rounding, non-negativity and the combined accuracy bound need symbolic
// float division/multiplication chains and are NOT decided here (DESIGN §6 C17, §12.6).

// a mapping whose bin bounds are an increasing uninterpreted function
type zzMonotoneMapping struct {
	id   int
	// slack: Index is bin-consistent only as far as C03 establishes it for the real mappings ("up to a
	// few ulps"): a value within rounding distance of a bin edge may be indexed to the neighbouring bin.
	// Stated without float multiplication as LB(i-1) < v < LB(i+2), which the few-ulps statement implies
	// because bins are many ulps wide.
	slack bool
	is   []int
	lbs  []float64
	vs   []float64
	idxs []int
}

func (m *zzMonotoneMapping) Equals(o mapping.IndexMapping) bool {
	om, ok := o.(*zzMonotoneMapping)
	return ok && om.id == m.id
}
func (m *zzMonotoneMapping) name(s string) string {
	if m.id == 0 {
		return s + "Old"
	}
	return s + "New"
}
func (m *zzMonotoneMapping) Index(v float64) int {
	i := zzvUFF64MInt(m.name("Index"), v, -(1 << 20), 1<<20)
	if m.slack {
		zzvAssume(zzvAnd(m.LowerBound(i-1) < v, v < m.LowerBound(i+2)))
		return i
	}
	// Index is consistent with LowerBound: LB(i) <= v < LB(i+1)
	zzvAssume(zzvAnd(m.LowerBound(i) <= v, v < m.LowerBound(i+1)))
	return i
}
func (m *zzMonotoneMapping) LowerBound(i int) float64 {
	x := zzvUFIntF64(m.name("LowerBound"), i)
	zzvAssume(zzvAnd(x > 0, x < 1e300))
	for k := range m.is {
		zzvAssume(zzvAnd(zzvImplies(m.is[k] < i, m.lbs[k] < x), zzvImplies(i < m.is[k], x < m.lbs[k])))
	}
	m.is = append(m.is, i)
	m.lbs = append(m.lbs, x)
	return x
}
func (m *zzMonotoneMapping) Value(i int) float64                       { return zzvUFIntF64(m.name("Value"), i) }
func (m *zzMonotoneMapping) RelativeAccuracy() float64                 { return 0.01 }
func (m *zzMonotoneMapping) MinIndexableValue() float64                { return 1e-300 }
func (m *zzMonotoneMapping) MaxIndexableValue() float64                { return 1e300 }
func (m *zzMonotoneMapping) ToProto() *sketchpb.IndexMapping           { return nil }
func (m *zzMonotoneMapping) EncodeProto(b *sketchpb.IndexMappingBuilder) {}
func (m *zzMonotoneMapping) Encode(b *[]byte)                          {}

// a recording store: remembers what it is given, never branches on weights
type zzRecStore struct {
	store.Store
	idx []int
	w   []float64
}

func (r *zzRecStore) AddWithCount(i int, c float64) { r.idx = append(r.idx, i); r.w = append(r.w, c) }
func (r *zzRecStore) ForEach(f func(int, float64) bool) {
	for k := range r.idx {
		if f(r.idx[k], r.w[k]) {
			return
		}
	}
}
func (r *zzRecStore) IsEmpty() bool { return len(r.idx) == 0 }

func ZZ_C17_identity_is_an_exact_copy() {
	zzvBound("identity", "source sketch with stores of kinds {dense L=3, sparse M=2, paginated B=2} in arbitrary valid states; equal mapping and scale exactly 1")
	kind := zzQuickKinds[zzvChoose("kind", 3)]
	m := zzStub(1)
	s := zzSketch1("s", kind)
	s.IndexMapping = m
	g := zzSnapSketch(s)
	p := zzProbe()
	zzvCover("pre-state")
	junkPos, junkNeg := store.NewDenseStore(), store.NewDenseStore()
	r := s.ChangeMapping(zzStub(1), junkPos, junkNeg, 1)
	zzvAssert("identity-content-equal", zzSameContent(r, g, p))
	zzvAssert("identity-copy-shares-no-store-memory", zzvAnd(zzvDisjoint(r.positiveValueStore, s.positiveValueStore), zzvDisjoint(r.negativeValueStore, s.negativeValueStore)))
	zzvAssert("identity-carries-mapping", r.IndexMapping.Equals(m))
	zzvAssert("identity-source-unchanged", zzSameExact(s, g))
	zzvAssert("identity-does-not-use-the-given-stores", junkPos.IsEmpty() && junkNeg.IsEmpty())
	// independence
	w := store.ZZWPos("c")
	i := store.ZZIdx("i")
	zzvAssume(zzWithin(s, i, 6))
	if zzvChoose("mutate", 2) == 0 {
		r.positiveValueStore.AddWithCount(i, w)
		r.negativeValueStore.AddWithCount(i, w)
		zzvAssert("source-independent-of-result", zzSameContent(s, g, p))
	} else {
		s.positiveValueStore.AddWithCount(i, w)
		s.negativeValueStore.AddWithCount(i, w)
		zzvAssert("result-independent-of-source", zzSameContent(r, g, p))
	}
}

func ZZ_C17_structure() {
	zzvBound("structure", "source with at most one bin per side (sparse stores, symbolic index and positive float64 weight) and a symbolic zero weight; old and new mapping known only through strictly increasing bin bounds; scale factor from {1/2, 1}; the target stores are recording stores (weights are not inspected); at most 3 target bins per source bin (assumption on the uninterpreted bounds)")
	zzvExactFloatsOnly()
	zzvMapOrders(2)
	zzvSolverSeconds(120)
	old, nw := &zzMonotoneMapping{id: 0}, &zzMonotoneMapping{id: 1}
	s := NewDDSketch(old, store.NewSparseStore(), store.NewSparseStore())
	var idx int
	var w float64
	hasPos := zzvChoose("positiveBin", 2) == 1
	if hasPos {
		idx = zzvMInt("index", -(1 << 19), 1<<19)
		w = zzvFloat64("weight")
		zzvAssume(zzvAnd(w > 0, w < 1e300))
		s.positiveValueStore.AddWithCount(idx, w)
	}
	s.zeroCount = zzvFloat64("zero")
	zzvAssume(zzvAnd(s.zeroCount >= 0, s.zeroCount < 1e300))
	scale := []float64{0.5, 1}[zzvChoose("scale", 2)]
	if hasPos {
		// the target bins that can overlap the scaled source bin: at most three
		lo := old.LowerBound(idx) * scale
		hi := old.LowerBound(idx+1) * scale
		zzvAssume(zzvAnd(lo > 1e-290, hi < 1e290))
		first := nw.Index(lo)
		zzvAssume(nw.LowerBound(first+3) >= hi)
	}
	zzvCover("pre-state")
	pos, neg := &zzRecStore{}, &zzRecStore{}
	r := s.ChangeMapping(nw, pos, neg, scale)
	zzvAssert("carries-requested-mapping", r.IndexMapping.Equals(nw) && !r.IndexMapping.Equals(old))
	zzvAssert("zero-weight-kept-exactly", zzvSameBits(r.zeroCount, s.zeroCount))
	zzvAssert("uses-the-given-stores", r.positiveValueStore == store.Store(pos) && r.negativeValueStore == store.Store(neg))
	zzvAssert("negative-side-stays-empty", neg.IsEmpty())
	if hasPos {
		zzvAssert("source-untouched", store.ZZAbs(s.positiveValueStore, idx) == w && s.negativeValueStore.IsEmpty())
		first := nw.Index(old.LowerBound(idx) * scale)
		n := 0
		pos.ForEach(func(i int, c float64) bool {
			n++
			zzvAssert("weight-only-in-overlapping-target-bins", zzvAnd(i >= first, i <= first+2))
			return false
		})
		zzvAssert("at-most-three-target-bins", n <= 3)
	} else {
		zzvAssert("empty-source-gives-empty-result", pos.IsEmpty())
	}
	_ = math.Inf
}

// Non-negativity and locality of the redistributed weight. The weight a target bin receives is
// (intersectionSize/inSize)*count with inSize > 0 and count > 0, so by the IEEE-754 sign rules (a difference
// x-y of finite numbers is negative exactly when x < y; quotients and products of a negative and a positive
// number are never positive; ZZ_C17_sign_rules discharges them as far as the solvers answer) it is negative
// exactly when the target bin's range [LB(out), LB(out+1)) lies strictly on one side of the scaled source bin.
// The obligation is therefore stated on the bin bounds the real loop visits: every call the real code makes
// to the target store concerns a bin that overlaps the scaled source bin. Mappings: any pair with strictly
// increasing positive bin bounds; the new mapping's Index is bin-consistent only up to a neighbouring bin,
// which is all that C03 establishes for the real mappings ("up to a few ulps").
func ZZ_C17_weights_nonnegative()              { zzC17Weights(false) }

// the same with the requested mapping EQUAL to the current one (a pure unit change, scale factor 1/2 or 2)
func ZZ_C17_weights_nonnegative_same_mapping() { zzC17Weights(true) }

func zzC17Weights(same bool) {
	zzvBound("weights", "one source bin (sparse store, symbolic index, symbolic positive finite float64 weight) on either side; scale factor from {1/2, 1, 2} (exact products; the old mapping's bounds being arbitrary increasing positive numbers, so are the scaled ones); old and new mapping known through strictly increasing positive bin bounds, the new Index consistent with them up to one neighbouring bin; at most 3 target bins follow the first one below the scaled source bin's upper bound; recording target stores")
	zzvAssumption("sign of a redistributed weight = sign of min(outHigh,inHigh)-max(outLow,inLow), by the IEEE-754 sign rules for -, / and * (inSize > 0, count > 0)")
	zzvExactFloatsOnly()
	zzvMapOrders(2)
	zzvSolverSeconds(120)
	old, nw := &zzMonotoneMapping{id: 0}, &zzMonotoneMapping{id: 1, slack: true}
	if same {
		old.slack = true
		nw = old
	}
	s := NewDDSketch(old, store.NewSparseStore(), store.NewSparseStore())
	idx := zzvMInt("index", -(1 << 19), 1<<19)
	w := zzvFloat64("weight")
	zzvAssume(zzvAnd(w > 0, w < 1e300))
	neg := zzvChoose("side", 2) == 1
	if neg {
		s.negativeValueStore.AddWithCount(idx, w)
	} else {
		s.positiveValueStore.AddWithCount(idx, w)
	}
	scale := []float64{0.5, 1, 2}[zzvChoose("scale", 3)]
	if same && scale == 1 {
		scale = 2
	}
	lo := old.LowerBound(idx) * scale
	hi := old.LowerBound(idx+1) * scale
	zzvAssume(zzvAnd(lo > 1e-290, zzvAnd(lo < hi, hi < 1e290)))
	first := nw.Index(lo)
	zzvAssume(nw.LowerBound(first+3) >= hi)
	zzvCover("pre-state")
	pos, ng := &zzRecStore{}, &zzRecStore{}
	s.ChangeMapping(nw, pos, ng, scale)
	rec, other := pos, ng
	if neg {
		rec, other = ng, pos
	}
	zzvAssert("other-side-stays-empty", other.IsEmpty())
	n := 0
	rec.ForEach(func(i int, c float64) bool {
		n++
		outLo, outHi := nw.LowerBound(i), nw.LowerBound(i+1)
		zzvAssert("no-negative-weight:target-bin-does-not-lie-beside-the-scaled-source-bin", zzvAnd(outHi >= lo, outLo <= hi))
		return false
	})
	zzvAssert("at-most-four-target-bins", n <= 4)
}

// The IEEE-754 sign rules the harness above relies on, as solver obligations over all float64 values.
func ZZ_C17_sign_rules() {
	zzvBound("sign-rules", "all finite float64 operands")
	zzvExactFloatsOnly()
	zzvSolverSeconds(120)
	x, y := zzvFloat64("x"), zzvFloat64("y")
	zzvAssume(zzvAnd(zzvAnd(x > -1e308, x < 1e308), zzvAnd(y > -1e308, y < 1e308)))
	zzvCover("pre-state")
	d := x - y
	zzvAssert("difference-negative-iff-less", (d < 0) == (x < y))
	zzvAssert("difference-positive-iff-greater", (d > 0) == (x > y))
}
func ZZ_C17_sign_rules_quotient_product() {
	zzvBound("sign-rules", "all finite float64 operands, positive divisor / multiplier")
	zzvExactFloatsOnly()
	zzvSolverSeconds(120)
	x, y := zzvFloat64("x"), zzvFloat64("y")
	zzvAssume(zzvAnd(zzvAnd(x > -1e308, x < 1e308), zzvAnd(y > 0, y < 1e308)))
	zzvCover("pre-state")
	zzvAssert("quotient-by-positive-keeps-sign", zzvAnd(zzvImplies(x < 0, x/y <= 0), zzvImplies(x > 0, x/y >= 0)))
	zzvAssert("product-with-positive-keeps-sign", zzvAnd(zzvImplies(x < 0, x*y <= 0), zzvImplies(x > 0, x*y >= 0)))
}
