//go:build verif

package stat

import "math"

// SummaryStatistics from an ARBITRARY field state (all float64 bit patterns): the steps that must
// not depend on what the accumulators hold.

func zzArbitrary(tag string) *SummaryStatistics {
	return &SummaryStatistics{count: zzvFloat64(tag + ".count"), sum: zzvFloat64(tag + ".sum"), sumCompensation: zzvFloat64(tag + ".comp"),
		simpleSum: zzvFloat64(tag + ".simple"), min: zzvFloat64(tag + ".min"), max: zzvFloat64(tag + ".max")}
}

func zzSameStat(a, b *SummaryStatistics) bool {
	return zzvAnd(zzvSameBits(a.count, b.count), zzvAnd(zzvSameBits(a.sum, b.sum), zzvAnd(zzvSameBits(a.sumCompensation, b.sumCompensation),
		zzvAnd(zzvSameBits(a.simpleSum, b.simpleSum), zzvAnd(zzvSameBits(a.min, b.min), zzvSameBits(a.max, b.max))))))
}

// C15: a cleared statistics object is field-for-field a new one (no residue of the compensated sum)
func ZZ_C15_stat_clear_resets_every_field() {
	zzvBound("statistics fields", "all six accumulator fields over all float64 bit patterns")
	s := zzArbitrary("s")
	zzvCover("state")
	s.Clear()
	zzvAssert("cleared-equals-new-field-for-field", zzSameStat(s, NewSummaryStatistics()))
	zzvAssert("cleared-observers", s.Count() == 0 && s.Sum() == 0 && s.Min() == math.Inf(1) && s.Max() == math.Inf(-1))
}

func ZZ_C10_stat_clear_resets_every_field() { ZZ_C15_stat_clear_resets_every_field() }

// C14/C10: Copy is field-for-field and independent
func ZZ_C14_stat_copy_independent() {
	s := zzArbitrary("s")
	pre := *s
	zzvCover("state")
	c := s.Copy()
	zzvAssert("copy-field-for-field", zzSameStat(c, &pre))
	zzvAssert("copy-is-a-different-object", c != s)
	if zzvChoose("mutate", 2) == 0 {
		s.Add(zzvFloat64("v"), 1)
		s.Clear()
		zzvAssert("copy-unaffected", zzSameStat(c, &pre))
	} else {
		c.Add(zzvFloat64("v"), 1)
		c.Clear()
		zzvAssert("original-unaffected", zzSameStat(s, &pre))
	}
}

// C10: constructor from data links the fields; empty statistics have the sentinels
func ZZ_C10_stat_from_data() {
	cnt, sum, mn, mx := zzvFloat64("count"), zzvFloat64("sum"), zzvFloat64("min"), zzvFloat64("max")
	zzvAssume(cnt == cnt && mn == mn && mx == mx)
	s, err := NewSummaryStatisticsFromData(cnt, sum, mn, mx)
	zzvCover("args")
	if err == nil {
		zzvAssert("fields-from-data", zzvSameBits(s.Count(), cnt) && zzvSameBits(s.min, mn) && zzvSameBits(s.max, mx) && zzvSameBits(s.sum, sum) && s.sumCompensation == 0 && zzvSameBits(s.simpleSum, sum))
		zzvAssert("empty-has-sentinels", zzvImplies(cnt == 0, zzvAnd(mn == math.Inf(1), mx == math.Inf(-1))))
	}
}

// C16/C10: reweighting scales count and every sum accumulator, extremes untouched (factor > 0)
func ZZ_C16_stat_reweight_fields() {
	s := zzArbitrary("s")
	pre := *s
	f := []float64{0.25, 0.5, 2, 3}[zzvChoose("factor", 4)]
	zzvCover("state")
	s.Reweight(f)
	zzvAssert("count-and-sums-scaled", zzvAnd(zzvSameBits(s.count, pre.count*f), zzvAnd(zzvSameBits(s.sum, pre.sum*f), zzvAnd(zzvSameBits(s.sumCompensation, pre.sumCompensation*f), zzvSameBits(s.simpleSum, pre.simpleSum*f)))))
	zzvAssert("extremes-untouched", zzvAnd(zzvSameBits(s.min, pre.min), zzvSameBits(s.max, pre.max)))
}

func ZZ_C10_stat_reweight_fields() { ZZ_C16_stat_reweight_fields() }

// exported for the sketch-level harnesses
func ZZArbitrary(tag string) *SummaryStatistics { return zzArbitrary(tag) }
func ZZSameStat(a, b *SummaryStatistics) bool  { return zzSameStat(a, b) }
