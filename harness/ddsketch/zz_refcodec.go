//go:build verif

package ddsketch

import "math"

// Reference decoder and encoder for the binary sketch format, written from the documentation in
// encoding/flag.go and the doc comments of encoding/encoding.go ONLY (no call into the repository's
// codec). Flag byte: 2 low bits = type (0 features, 2 mapping, 1 positive store, 3 negative store),
// 6 high bits = subflag.

type zzRefBin struct {
	index int64
	count float64
}

type zzRef struct {
	zero                       float64
	pos, neg                   []zzRefBin
	hasMapping                 bool
	mapKind                    byte // 0 log, 1 linear, 3 cubic
	gamma, offset              float64
	hasCount, hasSum           bool
	hasMin, hasMax             bool
	count, sum, min, max       float64
	boundaries                 []int // offsets at which a block starts (plus the end offset)
}

type zzReader struct {
	b   []byte
	pos int
	ok  bool
}

func (r *zzReader) byte() byte {
	if r.pos >= len(r.b) {
		r.ok = false
		return 0
	}
	c := r.b[r.pos]
	r.pos++
	return c
}

// unsigned varint: 7 bits per byte, least significant group first, high bit = continuation,
// at most 9 bytes, the 9th carrying 8 bits
func (r *zzReader) uvarint() uint64 {
	var x uint64
	for i := 0; i < 9; i++ {
		c := r.byte()
		if !r.ok {
			return 0
		}
		if i == 8 {
			return x | uint64(c)<<56
		}
		x |= uint64(c&0x7f) << (7 * uint(i))
		if c < 0x80 {
			return x
		}
	}
	return x
}

// zig-zag
func (r *zzReader) varint() int64 {
	u := r.uvarint()
	return int64(u>>1) ^ -int64(u&1)
}

// varfloat: most significant 7-bit groups first (9th byte: 8 bits), then rotate right by 6,
// add the bits of 1.0, reinterpret, subtract 1
func (r *zzReader) varfloat() float64 {
	var x uint64
	shift := 57
	for i := 0; i < 9; i++ {
		c := r.byte()
		if !r.ok {
			return 0
		}
		if i == 8 {
			x |= uint64(c)
			break
		}
		x |= uint64(c&0x7f) << uint(shift)
		if c < 0x80 {
			break
		}
		shift -= 7
	}
	x = x>>6 | x<<58
	return math.Float64frombits(x+math.Float64bits(1)) - 1
}

func (r *zzReader) float64le() float64 {
	var x uint64
	for i := 0; i < 8; i++ {
		c := r.byte()
		if !r.ok {
			return 0
		}
		x |= uint64(c) << (8 * uint(i))
	}
	return math.Float64frombits(x)
}

// zzRefDecode parses a stream; ok is false if it is malformed or ends inside a block.
func zzRefDecode(b []byte) (*zzRef, bool) {
	s := &zzRef{}
	r := &zzReader{b: b, ok: true}
	for r.pos < len(b) {
		s.boundaries = append(s.boundaries, r.pos)
		f := r.byte()
		typ, sub := f&3, f>>2
		switch typ {
		case 0:
			switch sub {
			case 1:
				s.zero += r.varfloat()
			case 0x28:
				s.count += r.varfloat()
				s.hasCount = true
			case 0x21:
				s.sum += r.float64le()
				s.hasSum = true
			case 0x22:
				s.min = r.float64le()
				s.hasMin = true
			case 0x23:
				s.max = r.float64le()
				s.hasMax = true
			default:
				return s, false
			}
		case 2:
			if sub != 0 && sub != 1 && sub != 3 {
				return s, false
			}
			s.mapKind = sub
			s.gamma = r.float64le()
			s.offset = r.float64le()
			s.hasMapping = true
		default:
			var bins []zzRefBin
			switch sub {
			case 1:
				n := r.uvarint()
				idx := int64(0)
				for i := uint64(0); i < n && r.ok; i++ {
					idx += r.varint()
					c := r.varfloat()
					bins = append(bins, zzRefBin{idx, c})
				}
			case 2:
				n := r.uvarint()
				idx := int64(0)
				for i := uint64(0); i < n && r.ok; i++ {
					idx += r.varint()
					bins = append(bins, zzRefBin{idx, 1})
				}
			case 3:
				n := r.uvarint()
				idx := r.varint()
				stride := r.varint()
				for i := uint64(0); i < n && r.ok; i++ {
					c := r.varfloat()
					bins = append(bins, zzRefBin{idx, c})
					idx += stride
				}
			default:
				return s, false
			}
			if typ == 1 {
				s.pos = append(s.pos, bins...)
			} else {
				s.neg = append(s.neg, bins...)
			}
		}
		if !r.ok {
			return s, false
		}
	}
	s.boundaries = append(s.boundaries, r.pos)
	return s, true
}

func zzRefAt(bins []zzRefBin, p int) float64 {
	v := 0.0
	for _, b := range bins {
		v += zzvIteF64(int(b.index) == p, b.count, 0)
	}
	return v
}

// ---------- reference encoder (for streams generated from the grammar) ----------

func zzPutUvarint(b []byte, v uint64) []byte {
	for i := 0; i < 8; i++ {
		if v < 0x80 {
			break
		}
		b = append(b, byte(v)|0x80)
		v >>= 7
	}
	return append(b, byte(v))
}
func zzPutVarint(b []byte, v int64) []byte {
	zzvHintInt(v)
	return zzPutUvarint(b, uint64(v<<1)^uint64(v>>63))
}
func zzPutVarfloat(b []byte, v float64) []byte {
	x := math.Float64bits(v+1) - math.Float64bits(1)
	x = x<<6 | x>>58
	for i := 0; i < 8; i++ {
		n := byte(x >> 57)
		x <<= 7
		if x == 0 {
			return append(b, n)
		}
		b = append(b, n|0x80)
	}
	return append(b, byte(x>>56))
}
func zzPutFloat64LE(b []byte, v float64) []byte {
	x := math.Float64bits(v)
	for i := 0; i < 8; i++ {
		b = append(b, byte(x>>(8*uint(i))))
	}
	return b
}
