//go:build verif

package ddsketch

import (
	"github.com/DataDog/sketches-go/ddsketch/mapping"
	"github.com/DataDog/sketches-go/ddsketch/stat"
	"github.com/DataDog/sketches-go/ddsketch/store"
)

// C06 — binary round trip. Source sketches are BUILT by the real code: bins at symbolic indexes
// (|index| < 2^13: one- and two-byte varints) with weights from a grid, on every store kind; the
// encoding is decoded by the real decoder into every store kind.

func zzProvider(kind int) store.Provider {
	switch kind {
	case 0:
		return store.SparseStoreConstructor
	case 1:
		return store.DenseStoreConstructor
	case 2:
		return store.BufferedPaginatedStoreConstructor
	case 3:
		return func() store.Store { return store.NewCollapsingLowestDenseStore(64) }
	default:
		return func() store.Store { return store.NewCollapsingHighestDenseStore(64) }
	}
}

var zzC06Weights = []float64{2, 0.5, 3.25}

// source bins: a symbolic base in [-8000, 8000] plus an enumerated delta pattern
var zzC06Patterns = [][]int{{}, {0}, {0, 1}, {0, 33}}

type zzSrc struct {
	idx []int
	w   []float64
}

func (g *zzSrc) at(p int) float64 {
	v := 0.0
	for j := range g.idx {
		v += zzvIteF64(g.idx[j] == p, g.w[j], 0)
	}
	return v
}

func (g *zzSrc) total() float64 {
	v := 0.0
	for _, w := range g.w {
		v += w
	}
	return v
}

// the store holds exactly k times the ghost content: right weight at every ghost index and the right
// total (weights are non-negative, so nothing can sit anywhere else). Avoids a symbolic probe, which
// would force 64-bit reasoning about every array cell.
func zzHoldsExactly(st store.Store, g *zzSrc, k float64) bool {
	ok := st.TotalCount() == k*g.total()
	for j := range g.idx {
		ok = zzvAnd(ok, store.ZZAbs(st, g.idx[j]) == k*g.at(g.idx[j]))
	}
	return ok
}

// zzNarrowBase: when a paginated store is involved the index base is enumerated, not symbolic
var zzNarrowBase bool
var zzSymbolicWeight bool

func zzFill(st store.Store, tag string, unit bool, npat int) *zzSrc {
	g := &zzSrc{}
	pat := zzC06Patterns[zzvChoose(tag+".pattern", npat)]
	if len(pat) == 0 {
		return g
	}
	var base int
	if zzNarrowBase {
		// paginated stores: page arithmetic (>>5, &31) over a symbolic 64-bit base is beyond the
		// solvers within the budget; the base is enumerated (page-aligned, page-end, negative, large)
		base = []int{-8000, -1, 0, 31, 4095, 1 << 30}[zzvChoose(tag+".base", 6)]
	} else {
		base = zzvIntIn(tag+".base", -8000, 8000)
	}
	for k, d := range pat {
		w := 1.0
		if !unit {
			if k == 0 && zzSymbolicWeight {
				// a symbolic small-integer weight: the varfloat transform is decided by the solver
				w = float64(zzvIntIn(tag+".k", 2, 31))
			} else {
				w = zzC06Weights[k]
			}
		}
		st.AddWithCount(base+d, w)
		g.idx = append(g.idx, base+d)
		g.w = append(g.w, w)
	}
	return g
}

func zzC06RoundTrip(srcKind, dstKind int) {
	zzvBound("round trip", "source sketch on the given store kind with 0-2 positive and 0-1 negative bins (symbolic base index in [-8000,8000] + enumerated offsets incl. a page-crossing pair), weights all unit (zero weight absent) or {2, 1/2} with zero weight 2.5; mapping embedded (empty buffer) or omitted and supplied (existing prefix of 2 symbolic bytes); decoded by the real decoder into the given target kind")
	zzvExactFloatsOnly()
	zzNarrowBase = srcKind == 2 || dstKind == 2
	m, _ := mapping.NewLogarithmicMapping(0.01)
	src := NewDDSketch(m, zzProvider(srcKind)(), zzProvider(srcKind)())
	unit := zzvChoose("unitWeights", 2) == 1
	gp := zzFill(src.positiveValueStore, "pos", unit, 4)
	gn := zzFill(src.negativeValueStore, "neg", unit, 2)
	zero := 0.0
	if !unit {
		zero = 2.5
	}
	src.zeroCount = zero
	omit := zzvChoose("omitMapping", 2) == 1
	nprefix := 0
	if omit {
		nprefix = 2
	}
	prefix := zzvBytes("prefix", nprefix)
	b := append([]byte{}, prefix...)
	zzvCover("built")
	src.Encode(&b, omit)
	// Encode only appends and does not change the source's content
	okPrefix := len(b) >= len(prefix)
	for i := range prefix {
		okPrefix = zzvAnd(okPrefix, b[i] == prefix[i])
	}
	zzvAssert("encode-only-appends", okPrefix)
	zzvAssert("encode-keeps-source-content", zzvAnd(zzHoldsExactly(src.positiveValueStore, gp, 1), zzvAnd(zzHoldsExactly(src.negativeValueStore, gn, 1), src.zeroCount == zero)))
	enc := b[len(prefix):]
	var given mapping.IndexMapping
	if omit {
		given = m
	}
	dst, err := DecodeDDSketch(enc, zzProvider(dstKind), given)
	zzvAssert("decode-ok", err == nil)
	zzvAssert("mapping-equal", dst.IndexMapping != nil && dst.IndexMapping.Equals(m))
	zzvAssert("zero-weight-equal", dst.zeroCount == zero)
	zzvAssert("positive-content-equal", zzHoldsExactly(dst.positiveValueStore, gp, 1))
	zzvAssert("negative-content-equal", zzHoldsExactly(dst.negativeValueStore, gn, 1))
	// decoding into a non-empty sketch = merging; the same bytes decoded twice = content twice
	zzvAssert("decode-into-non-empty-ok", dst.DecodeAndMergeWith(enc) == nil)
	zzvAssert("decode-into-non-empty-adds-up", zzvAnd(zzHoldsExactly(dst.positiveValueStore, gp, 2), zzvAnd(zzHoldsExactly(dst.negativeValueStore, gn, 2), dst.zeroCount == 2*zero)))
}

func ZZ_C06_roundtrip_sparse_sparse() { zzC06RoundTrip(0, 0) }
func ZZ_C06_roundtrip_symbolic_weight_sparse_sparse_X() { zzSymbolicWeight = true; zzC06RoundTrip(0, 0) }
func ZZ_C06_roundtrip_symbolic_weight_dense_dense_X()   { zzSymbolicWeight = true; zzC06RoundTrip(1, 1) }
func ZZ_C06_roundtrip_symbolic_weight_pag_pag_X()       { zzSymbolicWeight = true; zzC06RoundTrip(2, 2) }
func ZZ_C06_roundtrip_sparse_dense()  { zzC06RoundTrip(0, 1) }
func ZZ_C06_roundtrip_sparse_pag()    { zzC06RoundTrip(0, 2) }
func ZZ_C06_roundtrip_dense_sparse()  { zzC06RoundTrip(1, 0) }
func ZZ_C06_roundtrip_dense_dense()   { zzC06RoundTrip(1, 1) }
func ZZ_C06_roundtrip_dense_pag()     { zzC06RoundTrip(1, 2) }
func ZZ_C06_roundtrip_pag_sparse()    { zzC06RoundTrip(2, 0) }
func ZZ_C06_roundtrip_pag_dense()     { zzC06RoundTrip(2, 1) }
func ZZ_C06_roundtrip_pag_pag()       { zzC06RoundTrip(2, 2) }
func ZZ_C06_roundtrip_lowest_dense()  { zzC06RoundTrip(3, 1) }
func ZZ_C06_roundtrip_dense_highest() { zzC06RoundTrip(1, 4) }

var _ = stat.NewSummaryStatistics
