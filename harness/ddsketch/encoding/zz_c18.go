//go:build verif

package encoding

import (
	"io"
)

// C18 — codecs. Every harness: all 2^64 values symbolic, arbitrary prefix and trailing bytes.

func zzPrefixTrail(maxP, maxT int) (pre []byte, trail []byte) {
	np := zzvChoose("prefixLen", maxP+1)
	nt := zzvChoose("trailLen", maxT+1)
	return zzvBytes("prefix", np), zzvBytes("trail", nt)
}

func zzTrailMax() int { return 3 }

func zzEqBytes(a, b []byte) bool {
	ok := len(a) == len(b)
	if !ok {
		return false
	}
	for i := range a {
		ok = zzvAnd(ok, a[i] == b[i])
	}
	return ok
}

func ZZ_C18_uvarint_roundtrip() {
	zzvBound("value", "all 2^64 uint64 values")
	zzvBound("prefix/trailing", "arbitrary existing prefix of <=2 symbolic bytes, <=3 symbolic trailing bytes")
	v := zzvUint64("v")
	pre, trail := zzPrefixTrail(2, zzTrailMax())
	b := append([]byte{}, pre...)
	EncodeUvarint64(&b, v)
	n := len(b) - len(pre)
	zzvCover("encoded")
	zzvAssert("size-1..9", n >= 1 && n <= 9)
	zzvAssert("size-fn", Uvarint64Size(v) == n)
	zzvAssert("prefix-preserved", zzEqBytes(b[:len(pre)], pre))
	enc := append([]byte{}, b[len(pre):]...)
	// strict prefixes: EOF, nothing consumed
	for k := 0; k < n; k++ {
		p := enc[:k]
		_, err := DecodeUvarint64(&p)
		zzvAssert("strict-prefix-eof", err == io.EOF)
		zzvAssert("strict-prefix-unconsumed", len(p) == k)
	}
	full := append(enc, trail...)
	got, err := DecodeUvarint64(&full)
	zzvAssert("roundtrip-noerr", err == nil)
	zzvAssert("roundtrip-value", got == v)
	zzvAssert("framing", zzEqBytes(full, trail))
}
