//go:build verif

package encoding

import (
	"io"
)

// C18 — codecs. Every harness: all 2^64 values symbolic, arbitrary prefix and trailing bytes.

func zzPrefixTrail(maxP, maxT int) (pre []byte, trail []byte) {
	np := zzvChoose("prefixLen", maxP+1)
	nt := zzvChoose("trailLen", maxT+1)
	return zzvBytes("prefix", np), zzvBytes("trail", nt)
}

func zzTrailMax() int { return 3 }

func zzEqBytes(a, b []byte) bool {
	ok := len(a) == len(b)
	if !ok {
		return false
	}
	for i := range a {
		ok = zzvAnd(ok, a[i] == b[i])
	}
	return ok
}

func ZZ_C18_uvarint_roundtrip()              { zzC18Uvarint(2, 3) }
func ZZ_C18_uvarint_roundtrip_long_T()       { zzC18Uvarint(3, 8) }
func ZZ_C18_varint_roundtrip_long_T()        { zzC18Varint(2, 8) }
func ZZ_C18_float64le_roundtrip_long_T()     { zzC18Float64LE(2, 8) }
func ZZ_C18_varfloat_roundtrip_long_T()      { zzC18Varfloat(2, 8) }

func zzC18Uvarint(maxP, maxT int) {
	zzvBound("value", "all 2^64 uint64 values")
	zzvBound("prefix/trailing", "arbitrary existing prefix of <=2 (thorough 3) symbolic bytes, <=3 (thorough 8) symbolic trailing bytes")
	v := zzvUint64("v")
	pre, trail := zzPrefixTrail(maxP, maxT)
	b := append([]byte{}, pre...)
	EncodeUvarint64(&b, v)
	n := len(b) - len(pre)
	zzvCover("encoded")
	zzvAssert("size-1..9", n >= 1 && n <= 9)
	zzvAssert("size-fn", Uvarint64Size(v) == n)
	zzvAssert("prefix-preserved", zzEqBytes(b[:len(pre)], pre))
	enc := append([]byte{}, b[len(pre):]...)
	// strict prefixes: EOF, nothing consumed
	for k := 0; k < n; k++ {
		p := enc[:k]
		_, err := DecodeUvarint64(&p)
		zzvAssert("strict-prefix-eof", err == io.EOF)
		zzvAssert("strict-prefix-unconsumed", len(p) == k)
	}
	full := append(enc, trail...)
	got, err := DecodeUvarint64(&full)
	zzvAssert("roundtrip-noerr", err == nil)
	zzvAssert("roundtrip-value", got == v)
	zzvAssert("framing", zzEqBytes(full, trail))
}

func ZZ_C18_varint_roundtrip() { zzC18Varint(1, 2) }

func zzC18Varint(maxP, maxT int) {
	zzvBound("value", "all 2^64 int64 values")
	v := zzvInt64("v")
	pre, trail := zzPrefixTrail(maxP, maxT)
	b := append([]byte{}, pre...)
	EncodeVarint64(&b, v)
	n := len(b) - len(pre)
	zzvCover("encoded")
	zzvAssert("size-1..9", n >= 1 && n <= 9)
	zzvAssert("size-fn", Varint64Size(v) == n)
	zzvAssert("prefix-preserved", zzEqBytes(b[:len(pre)], pre))
	enc := append([]byte{}, b[len(pre):]...)
	for k := 0; k < n; k++ {
		p := enc[:k]
		_, err := DecodeVarint64(&p)
		zzvAssert("strict-prefix-eof", err == io.EOF)
		zzvAssert("strict-prefix-unconsumed", len(p) == k)
		q := enc[:k]
		_, err = DecodeVarint32(&q)
		zzvAssert("strict-prefix-eof-32", err == io.EOF)
		zzvAssert("strict-prefix-unconsumed-32", len(q) == k)
	}
	full := append(append([]byte{}, enc...), trail...)
	got, err := DecodeVarint64(&full)
	zzvAssert("roundtrip-noerr", err == nil)
	zzvAssert("roundtrip-value", got == v)
	zzvAssert("framing", zzEqBytes(full, trail))
	// 32-bit variant
	full32 := append(append([]byte{}, enc...), trail...)
	got32, err32 := DecodeVarint32(&full32)
	inRange := v >= -2147483648 && v <= 2147483647
	if inRange {
		zzvAssert("varint32-accepts-in-range", err32 == nil)
		zzvAssert("varint32-value", int64(got32) == v)
		zzvAssert("varint32-framing", zzEqBytes(full32, trail))
	} else {
		zzvAssert("varint32-rejects-overflow", err32 == errVarint32Overflow)
	}
}

func ZZ_C18_float64le_roundtrip() { zzC18Float64LE(1, 2) }

func zzC18Float64LE(maxP, maxT int) {
	zzvBound("value", "all 2^64 float64 bit patterns incl. NaN payloads, infinities, subnormals, -0")
	v := zzvFloat64("v")
	pre, trail := zzPrefixTrail(maxP, maxT)
	b := append([]byte{}, pre...)
	EncodeFloat64LE(&b, v)
	n := len(b) - len(pre)
	zzvCover("encoded")
	zzvAssert("size-8", n == 8)
	zzvAssert("prefix-preserved", zzEqBytes(b[:len(pre)], pre))
	enc := append([]byte{}, b[len(pre):]...)
	for k := 0; k < n; k++ {
		p := enc[:k]
		_, err := DecodeFloat64LE(&p)
		zzvAssert("strict-prefix-eof", err == io.EOF)
		zzvAssert("strict-prefix-unconsumed", len(p) == k)
	}
	full := append(append([]byte{}, enc...), trail...)
	got, err := DecodeFloat64LE(&full)
	zzvAssert("roundtrip-noerr", err == nil)
	zzvAssert("roundtrip-bits", zzvSameBits(got, v))
	zzvAssert("framing", zzEqBytes(full, trail))
}

func ZZ_C18_varfloat_roundtrip() { zzC18Varfloat(1, 2) }

func zzC18Varfloat(maxP, maxT int) {
	zzvBound("value", "all 2^64 float64 bit patterns")
	v := zzvFloat64("v")
	pre, trail := zzPrefixTrail(maxP, maxT)
	b := append([]byte{}, pre...)
	EncodeVarfloat64(&b, v)
	n := len(b) - len(pre)
	zzvCover("encoded")
	zzvAssert("size-1..9", n >= 1 && n <= 9)
	zzvAssert("size-fn", Varfloat64Size(v) == n)
	zzvAssert("prefix-preserved", zzEqBytes(b[:len(pre)], pre))
	enc := append([]byte{}, b[len(pre):]...)
	for k := 0; k < n; k++ {
		p := enc[:k]
		_, err := DecodeVarfloat64(&p)
		zzvAssert("strict-prefix-eof", err == io.EOF)
		zzvAssert("strict-prefix-unconsumed", len(p) == k)
	}
	full := append(append([]byte{}, enc...), trail...)
	got, err := DecodeVarfloat64(&full)
	zzvAssert("roundtrip-noerr", err == nil)
	want := (v + 1) - 1
	zzvAssert("roundtrip-(v+1)-1", zzvSameBits(got, want))
	zzvAssert("framing", zzEqBytes(full, trail))
}

// (v+1)-1 == v exactly for every integer 0 <= v < 2^53 and every non-negative multiple of 2^-g
// below 2^(52-g): the exactness clause of the varfloat codec.
func ZZ_C18_varfloat_exact_integers() {
	k := zzvUint64("k")
	zzvAssume(k < 1<<53)
	v := float64(k)
	zzvCover("int")
	zzvAssert("(v+1)-1==v for integers below 2^53", (v+1)-1 == v)
	b := []byte{}
	EncodeVarfloat64(&b, v)
	got, err := DecodeVarfloat64(&b)
	zzvAssert("integer-roundtrip-exact", err == nil && got == v)
	zzvAssert("integer-consumed", len(b) == 0)
}

func ZZ_C18_varfloat_exact_dyadic() {
	g := zzvChoose("g", 4) // 2^-1, 2^-4, 2^-10, 2^-20
	sh := []uint{1, 4, 10, 20}[g]
	zzvBound("dyadic grids", "multiples of 2^-g for g in {1,4,10,20} below 2^(52-g)")
	k := zzvUint64("k")
	zzvAssume(k < 1<<52)
	v := float64(k) / float64(uint64(1)<<sh)
	zzvCover("dyadic")
	zzvAssert("(v+1)-1==v for multiples of 2^-g below 2^(52-g)", (v+1)-1 == v)
}

// Arbitrary byte strings: no decoder panics, reads more than 9 (8) bytes, or consumes on error.
func ZZ_C18_arbitrary_input() {
	zzvBound("input", "every byte string of length 0..12 (all bytes symbolic)")
	n := zzvChoose("len", 13)
	in := zzvBytes("in", n)
	which := zzvChoose("decoder", 5)
	b := in
	var err error
	max := 9
	switch which {
	case 0:
		_, err = DecodeUvarint64(&b)
	case 1:
		_, err = DecodeVarint64(&b)
	case 2:
		_, err = DecodeVarint32(&b)
	case 3:
		_, err = DecodeVarfloat64(&b)
	case 4:
		_, err = DecodeFloat64LE(&b)
		max = 8
	}
	zzvCover("decoded")
	consumed := n - len(b)
	if err == nil {
		zzvAssert("consumes-1..9", consumed >= 1 && consumed <= max)
	} else if err == io.EOF {
		zzvAssert("error-consumes-nothing", consumed == 0)
		zzvAssert("eof-only-on-short-input", n < max)
	} else {
		zzvAssert("overflow-error-only-from-varint32", which == 2 && err == errVarint32Overflow)
	}
	// what remains is the tail of the input
	zzvAssert("remaining-is-suffix", zzEqBytes(b, in[consumed:]))
}

func ZZ_C18_flags() {
	fb := zzvByte("flag")
	f := Flag{fb}
	b := []byte{}
	pre, trail := zzPrefixTrail(1, 1)
	b = append(b, pre...)
	EncodeFlag(&b, f)
	zzvCover("flag-encoded")
	zzvAssert("flag-one-byte", len(b) == len(pre)+1)
	zzvAssert("prefix-preserved", zzEqBytes(b[:len(pre)], pre))
	rest := append(append([]byte{}, b[len(pre):]...), trail...)
	got, err := DecodeFlag(&rest)
	zzvAssert("flag-roundtrip", err == nil && got == f)
	zzvAssert("flag-framing", zzEqBytes(rest, trail))
	zzvAssert("flag-type-subflag-recompose", NewFlag(f.Type(), f.SubFlag()) == f)
	zzvAssert("flag-type-2-bits", f.Type().byte <= 3)
	zzvAssert("flag-subflag-6-bits", f.SubFlag().byte&3 == 0)
	e := []byte{}
	_, err = DecodeFlag(&e)
	zzvAssert("flag-empty-eof", err == io.EOF)
	// the exported flag constants: documented type bits and pairwise distinct
	all := []Flag{FlagZeroCountVarFloat, FlagCount, FlagSum, FlagMin, FlagMax,
		FlagIndexMappingBaseLogarithmic, FlagIndexMappingBaseLinear, FlagIndexMappingBaseQuadratic, FlagIndexMappingBaseCubic, FlagIndexMappingBaseQuartic,
		NewFlag(FlagTypePositiveStore, BinEncodingIndexDeltasAndCounts), NewFlag(FlagTypePositiveStore, BinEncodingIndexDeltas), NewFlag(FlagTypePositiveStore, BinEncodingContiguousCounts),
		NewFlag(FlagTypeNegativeStore, BinEncodingIndexDeltasAndCounts), NewFlag(FlagTypeNegativeStore, BinEncodingIndexDeltas), NewFlag(FlagTypeNegativeStore, BinEncodingContiguousCounts)}
	for i := range all {
		for j := i + 1; j < len(all); j++ {
			zzvAssert("flag-constants-distinct", all[i] != all[j])
		}
	}
	for i := 0; i < 5; i++ {
		zzvAssert("feature-flags-type-00", all[i].Type() == flagTypeSketchFeatures && all[i].Type().byte == 0)
	}
	for i := 5; i < 10; i++ {
		zzvAssert("mapping-flags-type-10", all[i].Type() == FlagTypeIndexMapping && all[i].Type().byte == 2)
	}
	zzvAssert("store-flag-types", FlagTypePositiveStore.byte == 1 && FlagTypeNegativeStore.byte == 3)
	zzvAssert("documented-subflags", FlagZeroCountVarFloat.byte == 1<<2 && FlagCount.byte == 0x28<<2 && FlagSum.byte == 0x21<<2 && FlagMin.byte == 0x22<<2 && FlagMax.byte == 0x23<<2 &&
		BinEncodingIndexDeltasAndCounts.byte == 1<<2 && BinEncodingIndexDeltas.byte == 2<<2 && BinEncodingContiguousCounts.byte == 3<<2)
}

// C08 rests on the primitive decoders being total: no byte string makes one panic (round 2)
func ZZ_C08_primitive_decoders_never_panic() { ZZ_C18_arbitrary_input() }
