//go:build verif

package ddsketch

import (
	"github.com/DataDog/sketches-go/ddsketch/store"
)

// ---------- C12: summary queries are mutually coherent ----------

func zzC12(n int) {
	zzvBound("inputs", "n trackable float64 values of any sign / zero / sub-minimum magnitude added with unit weight into a sketch on real sparse stores; mapping through the C03 contract; q1 <= q2 over all bit patterns in [0,1]")
	zzvMapOrders(2)
	zzvExactFloatsOnly()
	m := zzContract()
	s := NewDDSketch(m, store.NewSparseStore(), store.NewSparseStore())
	vals := make([]float64, n)
	eff := make([]float64, n)
	zeros := 0
	for i := range vals {
		vals[i] = zzTrackable(m, "v")
		eff[i] = zzEffective(m, vals[i])
		zeros += zzvIteInt(eff[i] == 0, 1, 0)
		zzvAssert("trackable-value-accepted", s.Add(vals[i]) == nil)
	}
	zzvCover("built")
	switch zzvChoose("query", 5) {
	case 0:
		zzvAssert("count-is-number-of-values", s.GetCount() == float64(n))
		zzvAssert("empty-iff-nothing-added", s.IsEmpty() == (n == 0))
		zzvAssert("zero-count", s.GetZeroCount() == float64(zeros))
	case 1:
		mn, e1 := s.GetMinValue()
		mx, e2 := s.GetMaxValue()
		zzvAssert("extremes-error-iff-empty", (e1 != nil) == (n == 0) && (e2 != nil) == (n == 0))
		if n > 0 {
			okMin, okMax := false, false
			for j := range eff {
				okMin = zzvOr(okMin, zzvAnd(zzIsOrderStat(eff, eff[j], 0), zzWithinBand(mn, eff[j])))
				okMax = zzvOr(okMax, zzvAnd(zzIsOrderStat(eff, eff[j], n-1), zzWithinBand(mx, eff[j])))
			}
			zzvAssert("min-within-band-of-true-minimum", okMin)
			zzvAssert("max-within-band-of-true-maximum", okMax)
			zzvAssert("min<=max", mn <= mx)
		}
	case 2:
		if n == 0 {
			return
		}
		q1, q2 := zzvFloat64("q1"), zzvFloat64("q2")
		zzvAssume(zzvAnd(q1 >= 0, zzvAnd(q1 <= q2, q2 <= 1)))
		r1, e1 := s.GetValueAtQuantile(q1)
		r2, e2 := s.GetValueAtQuantile(q2)
		mn, _ := s.GetMinValue()
		mx, _ := s.GetMaxValue()
		zzvAssert("quantiles-ok", e1 == nil && e2 == nil)
		zzvAssert("quantile-monotone-in-q", r1 <= r2)
		zzvAssert("quantiles-within-reported-extremes", zzvAnd(mn <= r1, r2 <= mx))
		both, e3 := s.GetValuesAtQuantiles([]float64{q1, q2})
		zzvAssert("batch-ok", e3 == nil && len(both) == 2)
		zzvAssert("batch-equals-singles", zzvAnd(zzvSameBits(both[0], r1), zzvSameBits(both[1], r2)))
	case 3:
		bad := zzvFloat64("badq")
		zzvAssume(!(bad >= 0 && bad <= 1))
		res, err := s.GetValuesAtQuantiles([]float64{0.5, bad})
		zzvAssert("batch-fails-if-one-fails", err != nil && res == nil)
	case 4:
		stopAfter := zzvChoose("stopAfter", 3)
		var vs, cs []float64
		s.ForEach(func(v, c float64) bool {
			vs = append(vs, v)
			cs = append(cs, c)
			return stopAfter != 0 && len(vs) == stopAfter
		})
		if stopAfter != 0 {
			zzvAssert("foreach-stops-when-asked", len(vs) <= stopAfter)
			return
		}
		sum := 0.0
		for k := range vs {
			zzvAssert("foreach-positive-weight", cs[k] > 0)
			for k2 := 0; k2 < k; k2++ {
				zzvAssert("foreach-distinct-bins", vs[k] != vs[k2])
			}
			sum += cs[k]
			// every iterated value is the representative of some absorbed value
			rep := false
			for j := range eff {
				rep = zzvOr(rep, zzWithinBand(vs[k], eff[j]))
			}
			zzvAssert("foreach-value-represents-an-input", rep)
		}
		zzvAssert("foreach-weights-sum-to-count", sum == s.GetCount())
		// every input is represented
		for j := range eff {
			rep := false
			for k := range vs {
				rep = zzvOr(rep, zzWithinBand(vs[k], eff[j]))
			}
			zzvAssert("foreach-covers-every-input", rep)
		}
	}
}

// the batch query equals the single queries also for fractional total weights
func ZZ_C12_batch_with_fractional_weights() { zzC11(1, true) }
func ZZ_C12_n0() { zzC12(0) }
func ZZ_C12_n1() { zzC12(1) }
func ZZ_C12_n2() { zzC12(2) }
func ZZ_C12_n3_T() { zzC12(3) }

// ATTEMPT (solver unknown within 5 minutes per query, so not part of any registered command):
// GetSum for same-signed data, with the MULTIPLICATIVE form of the accuracy contract
// (Value(Index(v)) within (alpha+1e-12) of v): the approximate sum is within that relative error of
// the true sum, up to the rounding of the additions (4 ulps allowed).
func zzC12Sum(n int, negative bool) {
	zzvBound("GetSum", "n same-signed values in [1e-100, 1e100] with unit weights on real sparse stores; mapping contract in multiplicative form with a = 0.01+1e-12")
	zzvMapOrders(2)
	zzvExactFloatsOnly()
	zzvSolverSeconds(300)
	m := zzContract()
	s := NewDDSketch(m, store.NewSparseStore(), store.NewSparseStore())
	const a = 0.01 + 1e-12
	trueSum := 0.0
	for i := 0; i < n; i++ {
		v := zzvFloat64("v")
		zzvAssume(zzvAnd(v >= 1e-100, zzvAnd(v <= 1e100, zzvAnd(v > m.min, v <= m.max))))
		x := m.Value(m.Index(v))
		zzvAssume(zzvAnd(x >= v*(1-a), x <= v*(1+a)))
		if negative {
			zzvAssert("accepted", s.Add(-v) == nil)
		} else {
			zzvAssert("accepted", s.Add(v) == nil)
		}
		trueSum += v
	}
	zzvCover("built")
	got := s.GetSum()
	if negative {
		got = -got
	}
	const slack = 1 + 8*2.220446049250313e-16
	zzvAssert("sum-within-alpha-of-true-sum", zzvAnd(got >= trueSum*(1-a)/slack, got <= trueSum*(1+a)*slack))
}
func ZZ_C12_sum_positive_n1_X() { zzC12Sum(1, false) }
func ZZ_C12_sum_negative_n1_X() { zzC12Sum(1, true) }
func ZZ_C12_sum_positive_n2_X() { zzC12Sum(2, false) }

// ---------- C11: weighted quantiles ----------

var zzWeightGrid = []float64{0.0009765625, 0.25, 0.5, 1, 1.5, 3, 1048576}

func zzC11(n int, viaReweight bool) {
	zzvBound("weighted inputs", "n trackable values with weights from {2^-10, 1/4, 1/2, 1, 1.5, 3, 2^20} (so totals below one occur), reached by weighted adds or by unit adds followed by Reweight; every q in [0,1]; real sparse stores; mapping through the C03 contract")
	zzvMapOrders(2)
	zzvExactFloatsOnly()
	m := zzContract()
	s := NewDDSketch(m, store.NewSparseStore(), store.NewSparseStore())
	vals := make([]float64, n)
	eff := make([]float64, n)
	ws := make([]float64, n)
	total := 0.0
	factor := 1.0
	if viaReweight {
		factor = []float64{0.0009765625, 0.25, 3}[zzvChoose("factor", 3)]
	}
	for i := range vals {
		vals[i] = zzTrackable(m, "v")
		eff[i] = zzEffective(m, vals[i])
		if viaReweight {
			ws[i] = factor
			zzvAssert("value-accepted", s.Add(vals[i]) == nil)
		} else {
			grid := zzWeightGrid
			if n >= 2 {
				grid = []float64{0.25, 1, 3} // n >= 2: sub-grid (49 weight pairs exceed the quick budget)
			}
			ws[i] = grid[zzvChoose("w", len(grid))]
			zzvAssert("weighted-value-accepted", s.AddWithCount(vals[i], ws[i]) == nil)
		}
		total += ws[i]
	}
	if viaReweight {
		zzvAssert("reweight-ok", s.Reweight(factor) == nil)
	}
	q := zzvFloat64("q")
	zzvAssume(zzvAnd(q >= 0, q <= 1))
	zzvCover("built")
	if total < 1 {
		zzvKnown("C11-total-weight-below-one")
	}
	r, err := s.GetValueAtQuantile(q)
	zzvAssert("quantile-ok", err == nil)
	mn, _ := s.GetMinValue()
	mx, _ := s.GetMaxValue()
	zzvAssert("answer-within-reported-extremes", zzvAnd(mn <= r, r <= mx))
	target := q * (total - 1)
	ok := false
	for j := range eff {
		cumLo, cumHi := 0.0, 0.0
		for i := range eff {
			cumLo += zzvIteF64(eff[i] < eff[j], ws[i], 0)
			cumHi += zzvIteF64(eff[i] <= eff[j], ws[i], 0)
		}
		near := zzvAnd(cumLo-1 <= target, target <= cumHi+1)
		ok = zzvOr(ok, zzvAnd(near, zzWithinBand(r, eff[j])))
	}
	zzvAssert("within-band-of-an-absorbed-value-at-the-right-rank", ok)
	// the batch query gives the same answers as the single queries, also for fractional totals
	both, berr := s.GetValuesAtQuantiles([]float64{q, 1})
	r1, _ := s.GetValueAtQuantile(1)
	zzvAssert("batch-equals-singles", berr == nil && len(both) == 2 && zzvSameBits(both[0], r) && zzvSameBits(both[1], r1))
}

func ZZ_C11_weighted_n1()   { zzC11(1, false) }
func ZZ_C11_weighted_n2()   { zzC11(2, false) }
func ZZ_C11_reweighted_n1() { zzC11(1, true) }
func ZZ_C11_reweighted_n2() { zzC11(2, true) }
func ZZ_C11_weighted_n3_T() { zzC11(3, false) }
