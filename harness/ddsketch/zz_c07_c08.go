//go:build verif

package ddsketch

import (
	"math"

	"github.com/DataDog/sketches-go/ddsketch/mapping"
	"github.com/DataDog/sketches-go/ddsketch/stat"
	"github.com/DataDog/sketches-go/ddsketch/store"
)

// shared source builder: a sketch built by the real code + ghost content
type zzBuiltSketch struct {
	s      *DDSketch
	e      *DDSketchWithExactSummaryStatistics
	gp, gn *zzSrc
	zero   float64
	m      mapping.IndexMapping
}

func zzBuildSource(srcKind int, exact bool, npatPos, npatNeg int) *zzBuiltSketch {
	zzvExactFloatsOnly()
	zzNarrowBase = srcKind == 2
	m, _ := mapping.NewLogarithmicMapping(0.01)
	src := NewDDSketch(m, zzProvider(srcKind)(), zzProvider(srcKind)())
	unit := zzvChoose("unitWeights", 2) == 1
	b := &zzBuiltSketch{s: src, m: m}
	b.gp = zzFill(src.positiveValueStore, "pos", unit, npatPos)
	b.gn = zzFill(src.negativeValueStore, "neg", unit, npatNeg)
	if !unit {
		b.zero = 2.5
	}
	src.zeroCount = b.zero
	if exact {
		st := stat.NewSummaryStatistics()
		total := b.gp.total() + b.gn.total() + b.zero
		if total > 0 {
			st.AddToCount(total)
			if unit {
				st.AddToSum(12.75)
				st.Add(-3.5, 0)
				st.Add(1e9, 0)
			} else {
				// everything absorbed was one and the same value: minimum == maximum, sum 0
				st.Add(0, 0)
			}
		}
		b.e = &DDSketchWithExactSummaryStatistics{DDSketch: src, summaryStatistics: st}
	}
	return b
}

func zzRefHoldsExactly(bins []zzRefBin, g *zzSrc) bool {
	tot := 0.0
	for _, b := range bins {
		tot += b.count
	}
	ok := tot == g.total()
	for j := range g.idx {
		ok = zzvAnd(ok, zzRefAt(bins, g.idx[j]) == g.at(g.idx[j]))
	}
	return ok
}

// ---------- C07 (a): the implementation's output is a documented stream ----------

func zzC07Impl(srcKind int, exact bool) {
	zzvBound("implementation output", "sketches as in C06 (0-2 positive, 0-1 negative bins, symbolic base index, unit or grid weights), both sketch variants, mapping embedded or omitted; parsed by a reference decoder written from the format documentation only")
	src := zzBuildSource(srcKind, exact, 4, 2)
	omit := zzvChoose("omitMapping", 2) == 1
	b := []byte{}
	zzvCover("built")
	if exact {
		src.e.Encode(&b, omit)
	} else {
		src.s.Encode(&b, omit)
	}
	ref, ok := zzRefDecode(b)
	zzvAssert("reference-decoder-accepts-and-consumes-all", ok)
	zzvAssert("zero-weight", ref.zero == src.zero)
	zzvAssert("positive-bins", zzRefHoldsExactly(ref.pos, src.gp))
	zzvAssert("negative-bins", zzRefHoldsExactly(ref.neg, src.gn))
	zzvAssert("mapping-block-present-iff-not-omitted", ref.hasMapping == !omit)
	if !omit {
		lm := src.m.(*mapping.LogarithmicMapping)
		_ = lm
		zzvAssert("mapping-kind-logarithmic", ref.mapKind == 0)
		m2, err := mapping.NewLogarithmicMappingWithGamma(ref.gamma, ref.offset)
		zzvAssert("mapping-parameters", err == nil && m2.Equals(src.m))
	}
	if exact {
		st := src.e.summaryStatistics
		zzvAssert("statistics-blocks", ref.hasCount == (st.Count() != 0) && (!ref.hasCount || ref.count == st.Count()) &&
			(!ref.hasSum || ref.sum == st.Sum()) && (!ref.hasMin || ref.min == st.Min()) && (!ref.hasMax || ref.max == st.Max()))
		// what a reader written from the documentation recovers (a statistic without a block keeps the value
		// of an empty sketch: count 0, sum 0, minimum +Inf, maximum -Inf) is what the sketch reports
		rc, rs, rmin, rmax := 0.0, 0.0, math.Inf(1), math.Inf(-1)
		if ref.hasCount {
			rc = ref.count
		}
		if ref.hasSum {
			rs = ref.sum
		}
		if ref.hasMin {
			rmin = ref.min
		}
		if ref.hasMax {
			rmax = ref.max
		}
		zzvAssert("reference-reader-recovers-the-statistics", rc == st.Count() && rs == st.Sum() && rmin == st.Min() && rmax == st.Max())
	} else {
		zzvAssert("no-statistics-blocks", !ref.hasCount && !ref.hasSum && !ref.hasMin && !ref.hasMax)
	}
}

func ZZ_C07_impl_sparse()       { zzC07Impl(0, false) }
func ZZ_C07_impl_dense()        { zzC07Impl(1, false) }
func ZZ_C07_impl_pag()          { zzC07Impl(2, false) }
func ZZ_C07_impl_lowest()       { zzC07Impl(3, false) }
func ZZ_C07_impl_exact_sparse() { zzC07Impl(0, true) }
func ZZ_C07_impl_exact_dense()  { zzC07Impl(1, true) }

// ---------- C07 (b): every well-formed stream decodes to the documented content ----------

var zzStrides = []int64{-1, 0, 40}

func zzC07Grammar(dstKind int) {
	zzvBound("grammar streams", "streams written by a reference encoder: block order from 3 permutations of {zero count, mapping, positive bins, negative bins, second positive block (repeated block), exact-summary statistics blocks (first, middle or last)}, each bin block in one of the three documented layouts with 3 bins, strides from {-1,0,40}, repeated indexes; symbolic base index in [-8000,8000] (enumerated when the target is the paginated store); decoded by the real decoder into the given store kind")
	zzvExactFloatsOnly()
	m, _ := mapping.NewLogarithmicMapping(0.01)
	lm := m
	var base int
	if dstKind == 2 {
		base = []int{-8000, -1, 0, 31, 4095}[zzvChoose("base", 5)]
	} else {
		// one varint length class per sign (length-class boundaries are C18's subject)
		if zzvChoose("negativeBase", 2) == 1 {
			base = zzvIntIn("base", -8000, -200)
		} else {
			base = zzvIntIn("base", 200, 8000)
		}
	}
	gp, gn := &zzSrc{}, &zzSrc{}
	// one bin block in a chosen layout
	block := func(tag string, flagType byte, g *zzSrc, start int) []byte {
		out := []byte{}
		layout := zzvChoose(tag+".layout", 3)
		n := 3
		switch layout {
		case 0: // index deltas and counts
			out = append(out, flagType|1<<2)
			out = zzPutUvarint(out, uint64(n))
			prev := 0
			for k := 0; k < n; k++ {
				idx := start + []int{0, 3, 3}[k] // a repeated index in the third bin
				w := []float64{2, 0.5, 1}[k]
				out = zzPutVarint(out, int64(idx-prev))
				out = zzPutVarfloat(out, w)
				prev = idx
				g.idx, g.w = append(g.idx, idx), append(g.w, w)
			}
		case 1: // index deltas, unit counts
			out = append(out, flagType|2<<2)
			out = zzPutUvarint(out, uint64(n))
			prev := 0
			for k := 0; k < n; k++ {
				idx := start + []int{5, 5, -7}[k]
				out = zzPutVarint(out, int64(idx-prev))
				prev = idx
				g.idx, g.w = append(g.idx, idx), append(g.w, 1)
			}
		case 2: // contiguous counts with a stride
			stride := zzStrides[zzvChoose(tag+".stride", len(zzStrides))]
			out = append(out, flagType|3<<2)
			out = zzPutUvarint(out, uint64(n))
			out = zzPutVarint(out, int64(start))
			out = zzPutVarint(out, stride)
			for k := 0; k < n; k++ {
				w := []float64{3.25, 1, 2}[k]
				out = zzPutVarfloat(out, w)
				g.idx, g.w = append(g.idx, start+k*int(stride)), append(g.w, w)
			}
		}
		return out
	}
	zero := 1.5
	zeroBlock := zzPutVarfloat([]byte{1 << 2}, zero)
	mapBlock := zzPutFloat64LE(zzPutFloat64LE([]byte{2}, 1.02020202020202), 0)
	_ = lm
	posBlock := block("pos", 1, gp, base)
	negBlock := block("neg", 3, gn, base+2)
	// the repeated positive block uses the layout after the first one's (all three layouts occur)
	pos2 := block("pos2", 1, gp, base+1)
	// exact-summary statistics blocks (ignored by the plain decoder wherever they stand, also last)
	stats := zzPutVarfloat([]byte{0x28 << 2}, 7)
	stats = zzPutFloat64LE(append(stats, 0x21<<2), 1.5)
	stats = zzPutFloat64LE(append(stats, 0x22<<2), -3)
	stats = zzPutFloat64LE(append(stats, 0x23<<2), 1e9)
	orders := [][]int{{0, 1, 2, 3, 4, 5}, {5, 4, 3, 2, 1, 0}, {2, 4, 0, 5, 3, 1}}
	blocks := [][]byte{zeroBlock, mapBlock, posBlock, negBlock, pos2, stats}
	var stream []byte
	for _, k := range orders[zzvChoose("order", len(orders))] {
		stream = append(stream, blocks[k]...)
	}
	zzvCover("stream")
	dst, err := DecodeDDSketch(stream, zzProvider(dstKind), nil)
	zzvAssert("well-formed-stream-accepted", err == nil)
	g2, _ := mapping.NewLogarithmicMappingWithGamma(1.02020202020202, 0)
	zzvAssert("mapping-decoded", dst.IndexMapping != nil && dst.IndexMapping.Equals(g2))
	zzvAssert("zero-weight", dst.zeroCount == zero)
	zzvAssert("positive-content", zzHoldsExactly(dst.positiveValueStore, gp, 1))
	zzvAssert("negative-content", zzHoldsExactly(dst.negativeValueStore, gn, 1))
}

func ZZ_C07_grammar_into_sparse() { zzC07Grammar(0) }
func ZZ_C07_grammar_into_dense()  { zzC07Grammar(1) }
func ZZ_C07_grammar_into_pag()    { zzC07Grammar(2) }

// ---------- C07 (c): the plain decoder accepts an exact-summary encoding ----------

func ZZ_C07_plain_decoder_accepts_exact_summary_encoding() {
	src := zzBuildSource(zzvChoose("srcKind", 2), true, 3, 2)
	b := []byte{}
	src.e.Encode(&b, false)
	zzvCover("encoded")
	if src.e.summaryStatistics.Count() != 0 {
		zzvKnown("C07-plain-decoder-count-block")
	}
	dst, err := DecodeDDSketch(b, store.SparseStoreConstructor, nil)
	zzvAssert("plain-decoder-accepts", err == nil)
	zzvAssert("plain-decoder-content", zzvAnd(zzHoldsExactly(dst.positiveValueStore, src.gp, 1), zzvAnd(zzHoldsExactly(dst.negativeValueStore, src.gn, 1), dst.zeroCount == src.zero)))
	// and the exact decoder restores the statistics
	de, err2 := DecodeDDSketchWithExactSummaryStatistics(b, store.SparseStoreConstructor, nil)
	st := src.e.summaryStatistics
	zzvAssert("exact-decoder-accepts", err2 == nil)
	zzvAssert("exact-decoder-statistics", de.GetCount() == st.Count() && de.GetSum() == st.Sum() &&
		(st.Count() == 0 || (de.summaryStatistics.Min() == st.Min() && de.summaryStatistics.Max() == st.Max())))
}

// ---------- C08: truncations, unknown flags, mapping mismatch / absence ----------

func zzC08Cuts(srcKind, dstKind int, exact bool) {
	zzvBound("truncation", "every cut position 0..len of encodings of sketches with 0-1 positive and 0-1 negative bins (symbolic base index, unit or grid weights, mapping embedded), decoded into the given store kind; the expected outcome comes from the reference parser")
	src := zzBuildSource(srcKind, exact, 2, 2)
	b := []byte{}
	if exact {
		src.e.Encode(&b, false)
	} else {
		src.s.Encode(&b, false)
	}
	zzvCover("encoded")
	for cut := 0; cut < len(b); cut++ {
		prefix := append([]byte{}, b[:cut]...)
		ref, ok := zzRefDecode(prefix)
		var dst *DDSketch
		var err error
		if exact {
			var de *DDSketchWithExactSummaryStatistics
			de, err = DecodeDDSketchWithExactSummaryStatistics(prefix, zzProvider(dstKind), nil)
			dst = de.DDSketch
		} else {
			dst, err = DecodeDDSketch(prefix, zzProvider(dstKind), nil)
		}
		if !ok {
			if err == nil {
				zzvKnown("C08-truncated-bin-block-accepted")
			}
			zzvAssert("cut-inside-a-block-is-an-error", err != nil)
			continue
		}
		if !ref.hasMapping {
			zzvAssert("cut-before-mapping-block-reports-missing-mapping", err != nil)
			continue
		}
		if err != nil {
			// the exact decoder may legitimately object to absent statistics
			zzvAssert("boundary-cut-error-only-for-missing-statistics", exact && !ref.hasCount)
			continue
		}
		zzvAssert("boundary-cut-holds-exactly-the-complete-blocks", zzvAnd(dst.zeroCount == ref.zero,
			zzvAnd(dst.positiveValueStore.TotalCount() == zzRefTotal(ref.pos), dst.negativeValueStore.TotalCount() == zzRefTotal(ref.neg))))
	}
}

func zzRefTotal(bins []zzRefBin) float64 {
	t := 0.0
	for _, b := range bins {
		t += b.count
	}
	return t
}

// a paginated store holding more unit entries than one decode batch (64): every cut of a 100-bin
// index-delta block (indexes enumerated; the run is interpreter-executed)
func ZZ_C08_cuts_pag_many_buffered() {
	zzvBound("long index-delta block", "100 unit-weight bins at indexes 0,3,6,...,297 in a paginated source, every cut position, paginated and sparse consumers")
	m := zzRealMapping(0)
	src := NewDDSketch(m, store.NewBufferedPaginatedStore(), store.NewBufferedPaginatedStore())
	for k := 0; k < 100; k++ {
		src.positiveValueStore.Add(3 * k)
	}
	b := []byte{}
	src.Encode(&b, false)
	zzvCover("encoded")
	zzvUnwind(100000)
	dstKind := []int{2, 0}[zzvChoose("dstKind", 2)]
	for cut := 0; cut <= len(b); cut++ {
		prefix := append([]byte{}, b[:cut]...)
		ref, ok := zzRefDecode(prefix)
		dst, err := DecodeDDSketch(prefix, zzProvider(dstKind), nil)
		if !ok {
			zzvAssert("cut-inside-a-block-is-an-error", err != nil)
			continue
		}
		if !ref.hasMapping {
			zzvAssert("cut-before-mapping-block-reports-missing-mapping", err != nil)
			continue
		}
		zzvAssert("boundary-cut-ok", err == nil && dst.positiveValueStore.TotalCount() == zzRefTotal(ref.pos))
	}
}

func ZZ_C08_cuts_sparse_sparse() { zzC08Cuts(0, 0, false) }
func ZZ_C08_cuts_dense_dense()   { zzC08Cuts(1, 1, false) }
func ZZ_C08_cuts_pag_pag()       { zzC08Cuts(2, 2, false) }
func ZZ_C08_cuts_dense_pag()     { zzC08Cuts(1, 2, false) }
func ZZ_C08_cuts_exact_sparse()  { zzC08Cuts(0, 0, true) }

func zzDefinedFlag(f byte) bool {
	typ, sub := f&3, f>>2
	switch typ {
	case 0:
		return sub == 1 || sub == 0x28 || sub == 0x21 || sub == 0x22 || sub == 0x23
	case 2:
		return sub == 0 || sub == 1 || sub == 3
	}
	return sub == 1 || sub == 2 || sub == 3
}

func ZZ_C08_unknown_flag_and_mapping_errors() {
	zzvBound("flag substitution", "the flag byte of one block of a valid encoding replaced by any undefined flag value (symbolic byte); mapping mismatch; mapping absent")
	src := zzBuildSource(zzvChoose("srcKind", 2), false, 2, 2)
	b := []byte{}
	src.s.Encode(&b, false)
	ref, ok := zzRefDecode(b)
	zzvAssume(ok)
	zzvCover("encoded")
	switch zzvChoose("case", 3) {
	case 0:
		nb := len(ref.boundaries) - 1
		if nb == 0 {
			return
		}
		at := ref.boundaries[zzvChoose("block", nb)]
		f := zzvByte("flag")
		zzvAssume(!zzDefinedFlag(f))
		mod := append([]byte{}, b...)
		mod[at] = f
		_, err := DecodeDDSketch(mod, store.SparseStoreConstructor, nil)
		if err == nil && f&3 != 0 && f&3 != 2 {
			zzvKnown("C08-unknown-bin-layout-accepted")
		}
		zzvAssert("undefined-flag-is-an-error", err != nil)
	case 1:
		other, _ := mapping.NewLogarithmicMapping(0.02)
		_, err := DecodeDDSketch(b, store.SparseStoreConstructor, other)
		zzvAssert("mapping-mismatch-is-an-error", err != nil)
		lin, _ := mapping.NewLinearlyInterpolatedMapping(0.01)
		_, err = DecodeDDSketch(b, store.DenseStoreConstructor, lin)
		zzvAssert("mapping-kind-mismatch-is-an-error", err != nil)
		// same kind and base, offsets 0 (encoded) vs clearly non-zero (receiver), and the reverse
		lm := src.m.(*mapping.LogarithmicMapping)
		_ = lm
		g := 1.02020202020202
		shifted, _ := mapping.NewLogarithmicMappingWithGamma(g, []float64{2, -0.5}[zzvChoose("receiverOffset", 2)])
		zero, _ := mapping.NewLogarithmicMappingWithGamma(g, 0)
		s0 := NewDDSketch(zero, store.NewSparseStore(), store.NewSparseStore())
		s0.Add(1.5)
		e0 := []byte{}
		s0.Encode(&e0, false)
		_, err = DecodeDDSketch(e0, store.SparseStoreConstructor, shifted)
		zzvAssert("offset-mismatch-zero-vs-nonzero-is-an-error", err != nil)
		s1 := NewDDSketch(shifted, store.NewSparseStore(), store.NewSparseStore())
		s1.Add(1.5)
		e1 := []byte{}
		s1.Encode(&e1, false)
		_, err = DecodeDDSketch(e1, store.SparseStoreConstructor, zero)
		zzvAssert("offset-mismatch-nonzero-vs-zero-is-an-error", err != nil)
	case 2:
		nb := []byte{}
		src.s.Encode(&nb, true)
		_, err := DecodeDDSketch(nb, store.SparseStoreConstructor, nil)
		zzvAssert("missing-mapping-is-an-error", err != nil)
		_, err = DecodeDDSketch([]byte{}, store.SparseStoreConstructor, nil)
		zzvAssert("empty-input-without-mapping-is-an-error", err != nil)
	}
	_ = math.Inf
}
