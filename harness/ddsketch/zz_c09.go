//go:build verif

package ddsketch

import (
	"math"

	"github.com/DataDog/sketches-go/ddsketch/mapping"
	"github.com/DataDog/sketches-go/ddsketch/pb/sketchpb"
	"github.com/DataDog/sketches-go/ddsketch/store"
)

// C09 — protobuf forms. proto.Marshal/Unmarshal (reflection-based) cannot be encoded; the in-memory
// message, the rebuilding code and the allocation-free streaming writer can. The streaming writer's
// bytes are parsed by a reference protobuf wire parser written from the protobuf encoding
// specification and ddsketch.proto's field numbers.

// ---------- source sketches with arbitrary positive float64 weights ----------

func zzPosWeight(name string) float64 {
	w := zzvFloat64(name)
	zzvAssume(zzvAnd(w > 0, w < math.Inf(1)))
	return w
}

func zzFillF(st store.Store, tag string, npat int) *zzSrc {
	g := &zzSrc{}
	pat := zzC06Patterns[zzvChoose(tag+".pattern", npat)]
	if len(pat) == 0 {
		return g
	}
	var base int
	if zzNarrowBase {
		base = []int{-1, 4095}[zzvChoose(tag+".base", 2)]
	} else {
		base = zzvIntIn(tag+".base", -8000, 8000)
	}
	for _, d := range pat {
		w := zzPosWeight(tag + ".w")
		st.AddWithCount(base+d, w)
		g.idx = append(g.idx, base+d)
		g.w = append(g.w, w)
	}
	return g
}

func zzHoldsBitExact(st store.Store, g *zzSrc) bool {
	ok := true
	for j := range g.idx {
		ok = zzvAnd(ok, store.ZZAbs(st, g.idx[j]) == g.w[j])
	}
	n := 0
	st.ForEach(func(int, float64) bool { n++; return false })
	return zzvAnd(ok, n == len(g.idx))
}

// real mappings incl. ones rebuilt from a base and a non-default (negative, fractional) offset
func zzC09Mapping(k int) mapping.IndexMapping {
	if k < 3 {
		return zzRealMapping(k)
	}
	l, _ := mapping.NewLogarithmicMapping(0.02)
	g := 1.0408163265306123 // gamma of accuracy 0.02
	_ = l
	switch k {
	case 3:
		m, _ := mapping.NewLogarithmicMappingWithGamma(g, -2.5)
		return m
	case 4:
		m, _ := mapping.NewLinearlyInterpolatedMappingWithGamma(g, 7.25)
		return m
	default:
		m, _ := mapping.NewCubicallyInterpolatedMappingWithGamma(g, -0.75)
		return m
	}
}

func zzC09Source(srcKind, dstKind int, mk int) (*DDSketch, *zzSrc, *zzSrc) {
	zzvExactFloatsOnly()
	zzvMapOrders(2)
	zzNarrowBase = srcKind == 2 || dstKind == 2
	s := NewDDSketch(zzC09Mapping(mk), zzProvider(srcKind)(), zzProvider(srcKind)())
	npat := 4
	if zzNarrowBase {
		npat = 3
	}
	gp := zzFillF(s.positiveValueStore, "pos", npat)
	gn := zzFillF(s.negativeValueStore, "neg", 2)
	s.zeroCount = zzvFloat64("zero")
	zzvAssume(zzvAnd(s.zeroCount >= 0, s.zeroCount < math.Inf(1)))
	return s, gp, gn
}

// (a) in-memory message -> rebuilt sketch with any store kind: bit-for-bit
func zzC09Rebuild(srcKind, dstKind int) {
	zzvBound("protobuf rebuild", "source sketch built by the real code on the given store kind: 0-2 positive / 0-1 negative bins at distinct indexes (symbolic base, enumerated for the paginated store), every positive finite float64 weight and zero weight (all bit patterns), the three mapping kinds with default and non-default (negative / fractional) offsets; rebuilt by FromProtoWithStoreProvider into the given kind")
	s, gp, gn := zzC09Source(srcKind, dstKind, zzvChoose("mapping", 6))
	zzvCover("built")
	msg := s.ToProto()
	dst, err := FromProtoWithStoreProvider(msg, zzProvider(dstKind))
	zzvAssert("rebuild-ok", err == nil)
	zzvAssert("mapping-equal", dst.IndexMapping.Equals(s.IndexMapping) && s.IndexMapping.Equals(dst.IndexMapping))
	zzvAssert("zero-weight-bit-exact", zzvSameBits(dst.zeroCount, s.zeroCount))
	zzvAssert("positive-bins-bit-exact", zzHoldsBitExact(dst.positiveValueStore, gp))
	zzvAssert("negative-bins-bit-exact", zzHoldsBitExact(dst.negativeValueStore, gn))
	zzvAssert("source-unchanged", zzvAnd(zzHoldsBitExact(s.positiveValueStore, gp), zzHoldsBitExact(s.negativeValueStore, gn)))
	if dstKind == 1 {
		d2, err2 := FromProto(msg)
		zzvAssert("FromProto-uses-dense", err2 == nil && zzHoldsBitExact(d2.positiveValueStore, gp))
	}
}

func ZZ_C09_rebuild_sparse_dense()  { zzC09Rebuild(0, 1) }
func ZZ_C09_rebuild_sparse_pag()    { zzC09Rebuild(0, 2) }
func ZZ_C09_rebuild_dense_sparse()  { zzC09Rebuild(1, 0) }
func ZZ_C09_rebuild_dense_dense()   { zzC09Rebuild(1, 1) }
func ZZ_C09_rebuild_pag_sparse()    { zzC09Rebuild(2, 0) }
func ZZ_C09_rebuild_pag_dense()     { zzC09Rebuild(2, 1) }
func ZZ_C09_rebuild_lowest_sparse() { zzC09Rebuild(3, 0) }

// (b) a hand-built message giving bins both sparsely and contiguously: they add up
func ZZ_C09_mixed_message_adds_up() {
	zzvBound("mixed message", "BinCounts with 2 entries and ContiguousBinCounts of length 3 at a symbolic offset, the sparse keys possibly inside the contiguous range; arbitrary positive float64 weights (grid weights incl. unit for the paginated target); target kinds sparse / dense / paginated")
	zzvExactFloatsOnly()
	zzvMapOrders(2)
	dstKind := zzvChoose("dstKind", 3)
	// mathematical-integer offset: the int32 conversions of the message fields are then identities
	// (their range is proven), and page arithmetic is linear integer arithmetic
	off := zzvMInt("offset", -8000, 8000)
	k1 := off + []int{-5, 0, 2}[zzvChoose("key1", 3)]
	k2 := off + 40
	w1, w2 := zzPosWeight("w1"), zzPosWeight("w2")
	c := []float64{zzPosWeight("c0"), zzPosWeight("c1"), zzPosWeight("c2")}
	if zzvChoose("zeroEnds", 2) == 1 {
		// hand-built messages may start and end with empty bins
		c[0], c[2] = 0, 0
	}
	if dstKind == 2 {
		// paginated target: weights from a grid (unit weights take the buffer path)
		w1, w2 = []float64{1, 2.5}[zzvChoose("w1", 2)], 1
		c = []float64{1, 0.5, 3}
	}
	msg := &sketchpb.Store{BinCounts: map[int32]float64{int32(k1): w1, int32(k2): w2}, ContiguousBinCounts: c, ContiguousBinIndexOffset: int32(off)}
	st := zzProvider(dstKind)()
	zzvCover("message")
	store.MergeWithProto(st, msg)
	want := func(p int) float64 {
		v := 0.0
		if p == k1 {
			v += w1
		}
		if p == k2 {
			v += w2
		}
		for j := range c {
			if p == off+j {
				v += c[j]
			}
		}
		return v
	}
	for _, p := range []int{k1, k2, off, off + 1, off + 2} {
		zzvAssert("sparse-and-contiguous-add-up", store.ZZAbs(st, p) == want(p))
	}
	if dstKind == 2 {
		p2 := store.NewBufferedPaginatedStore()
		p2.MergeWithProto(msg)
		for _, p := range []int{k1, k2, off, off + 1, off + 2} {
			zzvAssert("paginated-MergeWithProto-adds-up", store.ZZAbs(p2, p) == want(p))
		}
	}
}

// ---------- (c) reference protobuf wire parser ----------

type zzPBStore struct {
	keys   []int64
	vals   []float64
	contig []float64
	offset int64
	seen   bool
}
type zzPBSketch struct {
	hasMapping    bool
	gamma, offset float64
	interp        uint64
	pos, neg      zzPBStore
	zero          float64
	ok            bool
}

func zzPBVarint(b []byte, pos *int) (uint64, bool) {
	var x uint64
	for i := 0; i < 10; i++ {
		if *pos >= len(b) {
			return 0, false
		}
		c := b[*pos]
		*pos++
		x |= uint64(c&0x7f) << (7 * uint(i))
		if c < 0x80 {
			return x, true
		}
	}
	return 0, false
}
func zzPBFixed64(b []byte, pos *int) (uint64, bool) {
	if *pos+8 > len(b) {
		return 0, false
	}
	var x uint64
	for i := 0; i < 8; i++ {
		x |= uint64(b[*pos+i]) << (8 * uint(i))
	}
	*pos += 8
	return x, true
}
func zzUnzigzag(u uint64) int64 { return int64(u>>1) ^ -int64(u&1) }

func zzPBParseStore(b []byte) (zzPBStore, bool) {
	st := zzPBStore{seen: true}
	pos := 0
	for pos < len(b) {
		tag, ok := zzPBVarint(b, &pos)
		if !ok {
			return st, false
		}
		field, wt := tag>>3, tag&7
		switch {
		case field == 1 && wt == 2: // map entry
			n, ok := zzPBVarint(b, &pos)
			if !ok || pos+int(n) > len(b) {
				return st, false
			}
			e := b[pos : pos+int(n)]
			pos += int(n)
			var key int64
			var val float64
			ep := 0
			for ep < len(e) {
				t, ok := zzPBVarint(e, &ep)
				if !ok {
					return st, false
				}
				switch t {
				case 0x8:
					u, ok := zzPBVarint(e, &ep)
					if !ok {
						return st, false
					}
					key = zzUnzigzag(u)
				case 0x11:
					u, ok := zzPBFixed64(e, &ep)
					if !ok {
						return st, false
					}
					val = math.Float64frombits(u)
				default:
					return st, false
				}
			}
			st.keys = append(st.keys, key)
			st.vals = append(st.vals, val)
		case field == 2 && wt == 1: // unpacked repeated double
			u, ok := zzPBFixed64(b, &pos)
			if !ok {
				return st, false
			}
			st.contig = append(st.contig, math.Float64frombits(u))
		case field == 2 && wt == 2: // packed repeated double
			n, ok := zzPBVarint(b, &pos)
			if !ok || pos+int(n) > len(b) || n%8 != 0 {
				return st, false
			}
			for k := 0; k < int(n)/8; k++ {
				u, _ := zzPBFixed64(b, &pos)
				st.contig = append(st.contig, math.Float64frombits(u))
			}
		case field == 3 && wt == 0:
			u, ok := zzPBVarint(b, &pos)
			if !ok {
				return st, false
			}
			st.offset = zzUnzigzag(u)
		default:
			return st, false
		}
	}
	return st, true
}

func zzPBParse(b []byte) zzPBSketch {
	m := zzPBSketch{}
	pos := 0
	for pos < len(b) {
		tag, ok := zzPBVarint(b, &pos)
		if !ok {
			return m
		}
		field, wt := tag>>3, tag&7
		switch {
		case (field == 1 || field == 2 || field == 3) && wt == 2:
			n, ok := zzPBVarint(b, &pos)
			if !ok || pos+int(n) > len(b) {
				return m
			}
			sub := b[pos : pos+int(n)]
			pos += int(n)
			if field == 1 {
				m.hasMapping = true
				sp := 0
				for sp < len(sub) {
					t, ok := zzPBVarint(sub, &sp)
					if !ok {
						return m
					}
					switch t {
					case 0x9:
						u, ok := zzPBFixed64(sub, &sp)
						if !ok {
							return m
						}
						m.gamma = math.Float64frombits(u)
					case 0x11:
						u, ok := zzPBFixed64(sub, &sp)
						if !ok {
							return m
						}
						m.offset = math.Float64frombits(u)
					case 0x18:
						u, ok := zzPBVarint(sub, &sp)
						if !ok {
							return m
						}
						m.interp = u
					default:
						return m
					}
				}
			} else {
				st, ok := zzPBParseStore(sub)
				if !ok {
					return m
				}
				if field == 2 {
					m.pos = st
				} else {
					m.neg = st
				}
			}
		case field == 4 && wt == 1:
			u, ok := zzPBFixed64(b, &pos)
			if !ok {
				return m
			}
			m.zero = math.Float64frombits(u)
		default:
			return m
		}
	}
	m.ok = true
	return m
}

type zzSink struct{ b []byte }

func (s *zzSink) Write(p []byte) (int, error) {
	s.b = append(s.b, p...)
	return len(p), nil
}

func zzPBStoreEqualsMessage(p zzPBStore, msg *sketchpb.Store) bool {
	if msg == nil {
		return len(p.keys) == 0 && len(p.contig) == 0
	}
	if len(p.keys) != len(msg.BinCounts) || len(p.contig) != len(msg.ContiguousBinCounts) {
		return false
	}
	ok := true
	for j, k := range p.keys {
		v, found := msg.BinCounts[int32(k)]
		if !found {
			return false
		}
		ok = zzvAnd(ok, zzvAnd(k >= math.MinInt32 && k <= math.MaxInt32, zzvSameBits(v, p.vals[j])))
	}
	for j := range p.contig {
		ok = zzvAnd(ok, zzvSameBits(p.contig[j], msg.ContiguousBinCounts[j]))
	}
	if len(p.contig) > 0 {
		ok = zzvAnd(ok, p.offset == int64(msg.ContiguousBinIndexOffset))
	}
	return ok
}

func zzC09Stream(srcKind int) {
	zzvBound("streaming writer", "source sketches as for the rebuild harness; the bytes written by EncodeProto (generated builders + protowire, executed from their real code) are parsed by a reference protobuf wire parser (accepting packed and unpacked repeated doubles) and compared field by field, bit for bit, with the message ToProto builds")
	s, _, _ := zzC09Source(srcKind, srcKind, zzvChoose("mapping", 6))
	zzC09StreamOf(s)
}

func zzC09StreamOf(s *DDSketch) {
	zzvCover("built")
	sink := &zzSink{}
	s.EncodeProto(sink)
	msg := s.ToProto()
	got := zzPBParse(sink.b)
	zzvAssert("stream-is-well-formed-protobuf", got.ok)
	zzvAssert("mapping-fields", got.hasMapping && zzvSameBits(got.gamma, msg.Mapping.Gamma) && zzvSameBits(got.offset, msg.Mapping.IndexOffset) && got.interp == uint64(msg.Mapping.Interpolation))
	zzvAssert("zero-count", zzvSameBits(got.zero, msg.ZeroCount))
	zzvAssert("positive-store", zzPBStoreEqualsMessage(got.pos, msg.PositiveValues))
	zzvAssert("negative-store", zzPBStoreEqualsMessage(got.neg, msg.NegativeValues))
	// the mapping rebuilt from the streamed fields is the original one
	m2, err := mapping.FromProto(&sketchpb.IndexMapping{Gamma: got.gamma, IndexOffset: got.offset, Interpolation: sketchpb.IndexMapping_Interpolation(got.interp)})
	zzvAssert("streamed-mapping-equals-original", err == nil && m2.Equals(s.IndexMapping))
}

func ZZ_C09_stream_sparse() { zzC09Stream(0) }

// C19: the streamed protobuf form of a mapping (default and non-default offsets) reads back equal
func ZZ_C19_streamed_mapping_keeps_identity() { zzC09Stream(0) }
func ZZ_C09_stream_dense()  { zzC09Stream(1) }
func ZZ_C09_stream_pag()    { zzC09Stream(2) }
func ZZ_C09_stream_lowest() { zzC09Stream(3) }
