//go:build verif

package mapping

import (
	"math"
)

// C03 — index mappings. The linearly interpolated mapping is decided on its real arithmetic, one
// binade (52 symbolic significand bits) at a time; for the logarithmic and cubic mappings only the
// integer skeleton (manual floor, int32 range, monotonicity in the log-like quantity) is decided,
// the transcendental / polynomial part is outside (see DESIGN §6 C03 and §12.6).

const zzTol = 1e-12 // the suite's own tolerance on top of alpha

func zzInBinade(E int) float64 {
	sig := zzvUint64("significand")
	zzvAssume(sig < 1<<52)
	return math.Float64frombits(uint64(E+1023)<<52 | sig)
}

func zzNextFloat(v float64) float64 { return math.Float64frombits(math.Float64bits(v) + 1) }

func zzC03Linear(alpha float64, E int, gammaOffset bool) {
	zzvBound("linear mapping kernel", "one accuracy and one binade per harness: all 2^52 significands of the binade; accuracies and binades as listed by the harness names; tolerance alpha+1e-12 for accuracy; bin containment up to 2*eps*(|E|+2+|offset|/multiplier)+4*eps relative (a few ulps of the floored quantity)")
	zzvExactFloatsOnly()
	zzvSolverSeconds(900)
	var m *LinearlyInterpolatedMapping
	if gammaOffset {
		// a mapping rebuilt from a base and an arbitrary (non-default) offset, as decoders do
		m0, _ := NewLinearlyInterpolatedMapping(alpha)
		m, _ = NewLinearlyInterpolatedMappingWithGamma(m0.gamma, 12345.678)
	} else {
		m, _ = NewLinearlyInterpolatedMapping(alpha)
	}
	v := zzInBinade(E)
	zzvAssume(zzvAnd(v >= m.MinIndexableValue(), v <= m.MaxIndexableValue()))
	zzvCover("in-range")
	i := m.Index(v)
	zzvAssert("index-fits-int32", zzvAnd(i >= math.MinInt32, i <= math.MaxInt32))
	x := m.Value(i)
	ra := m.RelativeAccuracy()
	zzvAssert("relative-accuracy", zzvAnd(x-v <= (ra+zzTol)*v, v-x <= (ra+zzTol)*v))
	lo, hi := m.LowerBound(i), m.LowerBound(i+1)
	// "up to a few ulps": ulps of the QUANTITY WHOSE FLOOR IS TAKEN, t = approximateLog(v)*multiplier +
	// offset. t carries about four roundings, i.e. an error of 2 ulps of |t| <= (|E|+2)*multiplier +
	// |offset|; moved back to the value domain (d log2 v = dt/multiplier) this is a relative slack of
	// 2*eps*(|E| + 2 + |offset|/multiplier), plus 4 eps for the roundings inside LowerBound itself. No
	// float64 evaluation of floor(log) can do better, so the literal reading "4 ulps of v" (used by the
	// first version of this check) is unsatisfiable in far binades; see DESIGN 12.3(7).
	absE := float64(E)
	if absE < 0 {
		absE = -absE
	}
	offOverMult := m.indexOffset / m.multiplier
	if offOverMult < 0 {
		offOverMult = -offOverMult
	}
	slack := 2*2.220446049250313e-16*(absE+2+offOverMult) + 4*2.220446049250313e-16
	zzvAssert("value-inside-its-bin-up-to-a-few-ulps-of-the-floored-quantity", zzvAnd(lo*(1-slack) <= v, v <= hi*(1+slack)))
	// monotone: the next float never maps to a smaller index (covers the binade boundary too)
	zzvAssert("adjacent-float-monotone", m.Index(zzNextFloat(v)) >= i)
}

func ZZ_C03_linear_a01_E0()     { zzC03Linear(0.01, 0, false) }
func ZZ_C03_linear_a01_E1()     { zzC03Linear(0.01, 1, false) }
func ZZ_C03_linear_a01_Em1()    { zzC03Linear(0.01, -1, false) }
func ZZ_C03_linear_a01_E40_T()  { zzC03Linear(0.01, 40, false) }
func ZZ_C03_linear_a01_Em500_T() { zzC03Linear(0.01, -500, false) }
func ZZ_C03_linear_a01_E1000_T() { zzC03Linear(0.01, 1000, false) }
func ZZ_C03_linear_a001_E0_T()  { zzC03Linear(0.001, 0, false) }
func ZZ_C03_linear_a2_E0_T()    { zzC03Linear(0.2, 0, false) }
func ZZ_C03_linear_a75_E3_T()   { zzC03Linear(0.75, 3, false) }
func ZZ_C03_linear_offset_E0_T() { zzC03Linear(0.01, 0, true) }

// the accuracy each mapping reports equals the one it was built with (concrete evaluation of the
// real constructors and formulas on a grid; absolute tolerance 8 ulps of 1)
func ZZ_C03_reported_accuracy() {
	zzvCover("grid")
	for _, a := range []float64{1e-6, 1e-3, 0.01, 0.05, 0.2, 0.5, 0.75, 0.99} {
		m1, _ := NewLogarithmicMapping(a)
		m2, _ := NewLinearlyInterpolatedMapping(a)
		m3, _ := NewCubicallyInterpolatedMapping(a)
		for _, m := range []IndexMapping{m1, m2, m3} {
			d := m.RelativeAccuracy() - a
			zzvAssert("reported-accuracy-equals-configured", d <= 8*1.1102230246251565e-16 && -d <= 8*1.1102230246251565e-16)
			zzvAssert("indexable-range-sane", m.MinIndexableValue() > 0 && m.MinIndexableValue() < m.MaxIndexableValue() && m.MaxIndexableValue() < math.Inf(1))
			// both range ends map to an int32 index and back within the accuracy
			for _, v := range []float64{m.MinIndexableValue(), m.MaxIndexableValue(), 1, 1.5, 1e-300, 1e300} {
				if v < m.MinIndexableValue() || v > m.MaxIndexableValue() {
					continue
				}
				i := m.Index(v)
				x := m.Value(i)
				zzvAssert("range-end-index-int32", i >= math.MinInt32 && i <= math.MaxInt32)
				zzvAssert("range-end-accuracy", x-v <= (a+zzTol)*v && v-x <= (a+zzTol)*v)
			}
		}
	}
}

// integer skeleton shared by the three kinds: index = floor(X*multiplier + offset) computed as
// int(t) or int(t)-1. For every X in the range the log-like function can take:
//   i <= t < i+1  (or t == i+1 exactly at a negative integer t, the documented edge), and i is
// monotone in X.
func zzC03Skeleton(kind int, alpha float64, monotone bool) {
	zzvBound("floor skeleton", "the log-like quantity X free over its whole range [-1100, 1100] (all float64), real multiplier and offset of the mapping built for the accuracy")
	zzvExactFloatsOnly()
	zzvSolverSeconds(600)
	var mult, off float64
	switch kind {
	case 0:
		m, _ := NewLogarithmicMapping(alpha)
		mult, off = m.multiplier, m.indexOffset
	case 1:
		m, _ := NewLinearlyInterpolatedMapping(alpha)
		mult, off = m.multiplier, m.indexOffset
	default:
		m, _ := NewCubicallyInterpolatedMapping(alpha)
		mult, off = m.multiplier, m.indexOffset
	}
	X := zzvFloat64("X")
	Y := zzvFloat64("Y")
	zzvAssume(zzvAnd(X >= -1100, zzvAnd(X <= Y, Y <= 1100)))
	floorOf := func(x float64) (int, float64) {
		t := x*mult + off
		if t >= 0 {
			return int(t), t
		}
		return int(t) - 1, t
	}
	zzvCover("range")
	i, t := floorOf(X)
	j, _ := floorOf(Y)
	zzvAssert("manual-floor-brackets", zzvAnd(float64(i) <= t, zzvOr(t < float64(i)+1, zzvAnd(t < 0, t == float64(i)+1))))
	if monotone {
		zzvAssert("index-monotone-in-loglike", i <= j)
	}
}

// logarithmic mapping: the REAL Index on a symbolic value, math.Log uninterpreted; default and
// non-default offsets (as decoders build them). Index must be the floor of Log(v)*multiplier+offset.
func ZZ_C03_skeleton_log() {
	zzvBound("logarithmic Index skeleton", "every positive finite float64 value (math.Log uninterpreted, its result free in [-700,700]); offsets {0, 12.5, -3.25}")
	zzvExactFloatsOnly()
	zzvSolverSeconds(600)
	m0, _ := NewLogarithmicMapping(0.01)
	m, _ := NewLogarithmicMappingWithGamma(m0.gamma, []float64{0, 12.5, -3.25}[zzvChoose("offset", 3)])
	l := zzvFloat64("logOfValue")
	zzvAssume(zzvAnd(l >= -700, l <= 700))
	v := zzvExpOf(l) // engine: any positive v with Log(v) == l (Log uninterpreted); replay: exp(l)
	zzvCover("value")
	i := m.Index(v)
	if zzvChoose("nativeSlack", 1) == 0 {
		l = math.Log(v) // the same uninterpreted application (natively: the real logarithm of exp(l))
	}
	t := l*m.multiplier + m.indexOffset
	zzvAssert("index-is-floor-of-scaled-log", zzvAnd(float64(i) <= t, zzvOr(t < float64(i)+1, zzvAnd(t < 0, t == float64(i)+1))))
	zzvAssert("index-fits-int32", zzvAnd(i >= math.MinInt32, i <= math.MaxInt32))
}
func ZZ_C03_skeleton_linear()   { zzC03Skeleton(1, 0.01, false) }
func ZZ_C03_skeleton_cubic()    { zzC03Skeleton(2, 0.01, false) }
func ZZ_C03_skeleton_monotone_linear_X() { zzC03Skeleton(1, 0.01, true) }

// ---------- round 2: the REAL Index / approximateInverseLog of the interpolated mappings ----------

// a positive normal float64 whose exponent is free in [-1000, 1000] and whose k leading significand bits
// are free (the remaining ones zero): exact IEEE arithmetic stays decidable for the cubic polynomial
func zzFewBitsValue(k int) float64 {
	e := zzvIntIn("exponent", -1000, 1000)
	s := zzvUint64("significandBits")
	zzvAssume(s < (1 << uint(k)))
	return math.Float64frombits(uint64(e+1023)<<52 | s<<uint(52-k))
}

// Index is the floor of approximateLog(v)*multiplier+indexOffset, computed by the real code, for default,
// fractional and negative offsets (decoders build such mappings), and fits int32 inside the indexable range
func zzC03RealIndexSkeleton(kind, k int) {
	zzvBound("real Index skeleton", "interpolated mappings built for alpha=0.01 with offsets {default, 0, 0.5, -0.5, 35.0028, -7.25, and three offsets that put index MinInt32 / MaxInt32 about 600.5 and 600.25 binades from 1 (next to the int32 limits)}; values: every exponent in [-1000,1000] x the k leading significand bits free (k = 12 linear, 6 cubic), exact IEEE arithmetic")
	zzvExactFloatsOnly()
	zzvSolverSeconds(300)
	offs := []float64{0, 0.5, -0.5, 35.0028, -7.25, 0, 0, 0}
	oc := zzvChoose("offset", len(offs)+1)
	// the last three offsets put index MinInt32 (MaxInt32) about 600.5 / 600.25 binades below (above) 1
	extreme := func(mult float64) {
		offs[5] = math.MinInt32 + math.Floor(600.5*mult)
		offs[6] = math.MaxInt32 - math.Floor(600.5*mult)
		offs[7] = math.MinInt32 + math.Floor(600.25*mult)
	}
	v := zzFewBitsValue(k)
	var i int
	var t, lo, hi float64
	if kind == 1 {
		m0, _ := NewLinearlyInterpolatedMapping(0.01)
		m := m0
		extreme(m0.multiplier)
		if oc < len(offs) {
			m, _ = NewLinearlyInterpolatedMappingWithGamma(m0.gamma, offs[oc])
		}
		i = m.Index(v)
		t = m.approximateLog(v)*m.multiplier + m.indexOffset
		lo, hi = m.MinIndexableValue(), m.MaxIndexableValue()
	} else {
		m0, _ := NewCubicallyInterpolatedMapping(0.01)
		m := m0
		extreme(m0.multiplier)
		if oc < len(offs) {
			m, _ = NewCubicallyInterpolatedMappingWithGamma(m0.gamma, offs[oc])
		}
		i = m.Index(v)
		t = m.approximateLog(v)*m.multiplier + m.indexOffset
		lo, hi = m.MinIndexableValue(), m.MaxIndexableValue()
	}
	zzvCover("value")
	zzvAssert("index-is-floor-of-scaled-approximate-log", zzvAnd(float64(i) <= t, zzvOr(t < float64(i)+1, zzvAnd(t < 0, t == float64(i)+1))))
	zzvAssert("index-fits-int32-inside-the-indexable-range", zzvImplies(zzvAnd(lo <= v, v <= hi), zzvAnd(i >= math.MinInt32, i <= math.MaxInt32)))
}
func ZZ_C03_real_index_skeleton_linear() { zzC03RealIndexSkeleton(1, 12) }
func ZZ_C03_real_index_skeleton_cubic()  { zzC03RealIndexSkeleton(2, 6) }

// approximateInverseLog(x) lies in the binade of floor(x): the exponent field of the result is
// floor(x)+1023 for EVERY x (whole and negative whole numbers included); the significand arithmetic
// (Cardano's formula for the cubic mapping) is abstracted, the exponent does not depend on it
func zzC03InverseBinade(kind int) {
	zzvBound("inverse log binade", "every float64 x in [-1000, 1000]; interpolated mappings built for alpha=0.01; significand arithmetic abstracted (products/quotients of symbolic operands, Cbrt, Sqrt of the cubic inverse)")
	zzvExactFloatsOnly()
	zzvAbstractMulDiv()
	zzvSolverSeconds(300)
	x := zzvFloat64("x")
	zzvAssume(zzvAnd(x >= -1000, x <= 1000))
	var r float64
	if kind == 1 {
		m, _ := NewLinearlyInterpolatedMapping(0.01)
		r = m.approximateInverseLog(x)
	} else {
		m, _ := NewCubicallyInterpolatedMapping(0.01)
		r = m.approximateInverseLog(x)
	}
	zzvCover("x")
	e := int((math.Float64bits(r)>>52)&0x7ff) - 1023
	zzvAssert("result-lies-in-the-binade-of-floor-x", float64(e) == math.Floor(x))
}
func ZZ_C03_inverse_binade_linear() { zzC03InverseBinade(1) }
func ZZ_C03_inverse_binade_cubic()  { zzC03InverseBinade(2) }

// logarithmic mapping rebuilt with offsets next to the int32 limits: inside [MinIndexableValue,
// MaxIndexableValue] the index fits int32 (math.Log uninterpreted but monotone: its value on the range
// lies between its values at the two ends, which are the native logarithms)
func ZZ_C03_log_index_fits_int32_with_extreme_offsets() {
	zzvBound("logarithmic Index, extreme offsets", "gamma of alpha=0.01; offsets {2147480000, -2147480000, 1.8e9, -1.8e9}; every value of the indexable range (math.Log uninterpreted, monotone between the native logarithms of the range ends)")
	zzvExactFloatsOnly()
	zzvSolverSeconds(600)
	m0, _ := NewLogarithmicMapping(0.01)
	m, err := NewLogarithmicMappingWithGamma(m0.gamma, []float64{2147480000, -2147480000, 1.8e9, -1.8e9}[zzvChoose("offset", 4)])
	zzvAssume(err == nil)
	zzvAssume(m.minIndexableValue < m.maxIndexableValue)
	l := zzvFloat64("logOfValue")
	zzvAssume(zzvAnd(l >= math.Log(m.minIndexableValue), l <= math.Log(m.maxIndexableValue)))
	v := zzvExpOf(l)
	zzvAssume(zzvAnd(v >= m.minIndexableValue, v <= m.maxIndexableValue))
	zzvCover("value")
	i := m.Index(v)
	zzvAssert("index-fits-int32", zzvAnd(i >= math.MinInt32, i <= math.MaxInt32))
}

// concrete grid (interpreter-executed, no solver decision; stated as such): mappings REBUILT WITH
// NON-DEFAULT OFFSETS, as decoders build them, still map a value to a bin whose representative is within
// the accuracy, Index and LowerBound agree, and LowerBound increases
func ZZ_C03_accuracy_grid_with_offsets() {
	zzvBound("offset grid", "concrete grid only: three kinds x alpha {0.01, 0.05, 0.2} x offsets {1, -2.5, 35.0028, 1000.5} x 9 values; executed by the interpreter on the real code")
	zzvCover("grid")
	for _, a := range []float64{0.01, 0.05, 0.2} {
		g1, _ := NewLogarithmicMapping(a)
		g2, _ := NewLinearlyInterpolatedMapping(a)
		g3, _ := NewCubicallyInterpolatedMapping(a)
		for _, off := range []float64{1, -2.5, 35.0028, 1000.5} {
			m1, _ := NewLogarithmicMappingWithGamma(g1.gamma, off)
			m2, _ := NewLinearlyInterpolatedMappingWithGamma(g2.gamma, off)
			m3, _ := NewCubicallyInterpolatedMappingWithGamma(g3.gamma, off)
			for _, m := range []IndexMapping{m1, m2, m3} {
				for _, v := range []float64{1, 1.5, 0.5, 0.7071, 3.999, 1e-3, 12345.678, 1e-200, 1e200} {
					i := m.Index(v)
					x := m.Value(i)
					zzvAssert("offset-grid-accuracy", x-v <= (a+zzTol)*v && v-x <= (a+zzTol)*v)
					zzvAssert("offset-grid-containment", m.LowerBound(i) <= v*(1+1e-12) && v <= m.LowerBound(i+1)*(1+1e-12))
					zzvAssert("offset-grid-lower-bound-increases", m.LowerBound(i) < m.LowerBound(i+1))
				}
			}
		}
	}
}

// C01 is a composition through the mapping contract; the part of that contract that concerns rebuilt
// mappings (non-default offsets) is re-checked under C01 as well
func ZZ_C01_mapping_contract_grid_with_offsets() { ZZ_C03_accuracy_grid_with_offsets() }
