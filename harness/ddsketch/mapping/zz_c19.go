//go:build verif

package mapping

import (
	enc "github.com/DataDog/sketches-go/ddsketch/encoding"
	"github.com/DataDog/sketches-go/ddsketch/pb/sketchpb"
)

// C19 — a mapping keeps its identity through every serialised form.
// gamma and offset are symbolic (all finite float64 with gamma > 1); math.Log/Log2/Exp/Pow are
// deterministic uninterpreted functions, so "same gamma and offset bits => same derived fields and
// same Index/Value/LowerBound on every argument" is a congruence argument the solver checks.

func zzGammaOffset() (float64, float64) {
	g := zzvFloat64("gamma")
	off := zzvFloat64("offset")
	zzvAssume(zzvAnd(g > 1, g < 1e300))
	zzvAssume(zzvAnd(off > -1e300, off < 1e300))
	return g, off
}

func zzMake(kind int, g, off float64) IndexMapping {
	switch kind {
	case 0:
		m, _ := NewLogarithmicMappingWithGamma(g, off)
		return m
	case 1:
		m, _ := NewLinearlyInterpolatedMappingWithGamma(g, off)
		return m
	default:
		m, _ := NewCubicallyInterpolatedMappingWithGamma(g, off)
		return m
	}
}

type zzFields struct{ gamma, offset, multiplier, min, max float64 }

func zzFieldsOf(m IndexMapping) (int, zzFields) {
	switch x := m.(type) {
	case *LogarithmicMapping:
		return 0, zzFields{x.gamma, x.indexOffset, x.multiplier, x.minIndexableValue, x.maxIndexableValue}
	case *LinearlyInterpolatedMapping:
		return 1, zzFields{x.gamma, x.indexOffset, x.multiplier, x.minIndexableValue, x.maxIndexableValue}
	case *CubicallyInterpolatedMapping:
		return 2, zzFields{x.gamma, x.indexOffset, x.multiplier, x.minIndexableValue, x.maxIndexableValue}
	}
	return -1, zzFields{}
}

func zzSameFields(a, b zzFields) bool {
	return zzvAnd(zzvSameBits(a.gamma, b.gamma), zzvAnd(zzvSameBits(a.offset, b.offset), zzvAnd(zzvSameBits(a.multiplier, b.multiplier),
		zzvAnd(zzvSameBits(a.min, b.min), zzvSameBits(a.max, b.max)))))
}

func zzSameBehaviour(a, b IndexMapping) bool {
	v := zzvFloat64("probeValue")
	i := zzvInt("probeIndex")
	return zzvAnd(a.Index(v) == b.Index(v), zzvAnd(zzvSameBits(a.Value(i), b.Value(i)), zzvAnd(zzvSameBits(a.LowerBound(i), b.LowerBound(i)),
		zzvAnd(zzvSameBits(a.RelativeAccuracy(), b.RelativeAccuracy()), zzvAnd(zzvSameBits(a.MinIndexableValue(), b.MinIndexableValue()), zzvSameBits(a.MaxIndexableValue(), b.MaxIndexableValue()))))))
}

func ZZ_C19_binary_roundtrip() {
	zzvBound("parameters", "every finite gamma > 1 and every finite offset (all bit patterns), the three mapping kinds; probe value and probe index over all bit patterns")
	kind := zzvChoose("kind", 3)
	g, off := zzGammaOffset()
	m := zzMake(kind, g, off)
	prefix := zzvBytes("prefix", zzvChoose("prefixLen", 2))
	b := append([]byte{}, prefix...)
	zzvCover("built")
	m.Encode(&b)
	zzvAssert("encoded-length", len(b) == len(prefix)+17)
	rest := b[len(prefix):]
	flag, err := enc.DecodeFlag(&rest)
	zzvAssert("flag-ok", err == nil && flag.Type() == enc.FlagTypeIndexMapping)
	m2, err := Decode(&rest, flag)
	zzvAssert("decode-ok", err == nil && len(rest) == 0)
	k1, f1 := zzFieldsOf(m)
	k2, f2 := zzFieldsOf(m2)
	zzvAssert("same-kind", k1 == k2 && k1 == kind)
	zzvAssert("bit-identical-parameters-and-derived-fields", zzSameFields(f1, f2))
	zzvAssert("same-behaviour", zzSameBehaviour(m, m2))
	zzvAssert("equal-to-original", m.Equals(m2) && m2.Equals(m))
}

func ZZ_C19_proto_roundtrip() {
	kind := zzvChoose("kind", 3)
	g, off := zzGammaOffset()
	m := zzMake(kind, g, off)
	zzvCover("built")
	pb := m.ToProto()
	wantInterp := []sketchpb.IndexMapping_Interpolation{sketchpb.IndexMapping_NONE, sketchpb.IndexMapping_LINEAR, sketchpb.IndexMapping_CUBIC}[kind]
	zzvAssert("proto-fields", zzvSameBits(pb.Gamma, g) && zzvSameBits(pb.IndexOffset, off) && pb.Interpolation == wantInterp)
	m2, err := FromProto(pb)
	zzvAssert("from-proto-ok", err == nil)
	k1, f1 := zzFieldsOf(m)
	k2, f2 := zzFieldsOf(m2)
	zzvAssert("same-kind", k1 == k2)
	zzvAssert("bit-identical-parameters-and-derived-fields", zzSameFields(f1, f2))
	zzvAssert("same-behaviour", zzSameBehaviour(m, m2))
	zzvAssert("equal-to-original", m.Equals(m2) && m2.Equals(m))
}

func ZZ_C19_errors() {
	zzvCover("errors")
	_, err := FromProto(nil)
	zzvAssert("nil-proto-is-an-error", err != nil)
	_, err = FromProto(&sketchpb.IndexMapping{Gamma: 1.02, Interpolation: sketchpb.IndexMapping_QUADRATIC})
	zzvAssert("unsupported-interpolation-is-an-error", err != nil)
	fb := zzvByte("flag")
	f := enc.NewFlag(enc.FlagTypeIndexMapping, enc.Flag{}.SubFlag())
	_ = f
	zzvAssume(fb != 2 && fb != 2|1<<2 && fb != 2|3<<2)
	payload := zzvBytes("payload", 16)
	rest := append([]byte{fb}, payload...)
	flag, _ := enc.DecodeFlag(&rest)
	_, err = Decode(&rest, flag)
	zzvAssert("unknown-mapping-flag-is-an-error", err != nil)
	// truncated payloads
	kindFlag := []byte{2, 2 | 1<<2, 2 | 3<<2}[zzvChoose("kind", 3)]
	n := zzvChoose("payloadLen", 16)
	short := append([]byte{kindFlag}, zzvBytes("short", n)...)
	flag, _ = enc.DecodeFlag(&short)
	_, err = Decode(&short, flag)
	zzvAssert("truncated-mapping-block-is-an-error", err != nil)
}

// accuracy constructor == base/offset constructor with the same parameters
func ZZ_C19_constructors_agree() {
	kind := zzvChoose("kind", 3)
	a := zzvFloat64("alpha")
	zzvAssume(zzvAnd(a > 1e-9, a < 1))
	var m IndexMapping
	var err error
	switch kind {
	case 0:
		m, err = NewLogarithmicMapping(a)
	case 1:
		m, err = NewLinearlyInterpolatedMapping(a)
	default:
		m, err = NewCubicallyInterpolatedMapping(a)
	}
	if err != nil {
		return // gamma not above one for this uninterpreted Pow: nothing to compare
	}
	zzvCover("built")
	_, f := zzFieldsOf(m)
	// Pow is uninterpreted on symbolic arguments: its result is assumed finite (as the real one is)
	zzvAssume(zzvAnd(f.gamma < 1e300, zzvAnd(f.offset > -1e300, f.offset < 1e300)))
	m2 := zzMake(kind, f.gamma, f.offset)
	_, f2 := zzFieldsOf(m2)
	zzvAssert("same-fields", zzSameFields(f, f2))
	zzvAssert("equal", m.Equals(m2) && m2.Equals(m))
	zzvAssert("same-behaviour", zzSameBehaviour(m, m2))
}

// Equals: reflexive, symmetric, never across kinds, never for clearly different parameters
func ZZ_C19_equality_reflexive() {
	zzvBound("equality", "gamma/offset over all finite float64 with gamma > 1; the three kinds")
	zzvSolverSeconds(300)
	k := zzvChoose("kind", 3)
	g, o := zzGammaOffset()
	a := zzMake(k, g, o)
	zzvCover("mapping")
	zzvAssert("reflexive", a.Equals(a))
	b := zzMake(k, g, o)
	zzvAssert("identical-parameters-equal", a.Equals(b) && b.Equals(a))
}

func ZZ_C19_equality_across_kinds() {
	k1, k2 := zzvChoose("kind1", 3), zzvChoose("kind2", 3)
	g1, o1 := zzGammaOffset()
	g2, o2 := zzGammaOffset()
	a, b := zzMake(k1, g1, o1), zzMake(k2, g2, o2)
	zzvCover("pair")
	if k1 != k2 {
		zzvAssert("different-kinds-never-equal", !a.Equals(b) && !b.Equals(a))
	}
}

func zzC19Pair(k int, bothSymbolic bool) {
	zzvBound("equality pairs", "one mapping with the real base for accuracy 0.01 and an offset from {0, 1.5, -2} against a mapping of the same kind whose base and offset range over all finite float64 (base > 1); thorough: both symbolic")
	zzvSolverSeconds(300)
	var g1, o1 float64
	if bothSymbolic {
		g1, o1 = zzGammaOffset()
	} else {
		m0, _ := NewLogarithmicMapping(0.01)
		g1, o1 = m0.gamma, []float64{0, 1.5, -2}[zzvChoose("offset1", 3)]
	}
	g2, o2 := zzGammaOffset()
	a, b := zzMake(k, g1, o1), zzMake(k, g2, o2)
	zzvCover("pair")
	eab := a.Equals(b)
	if bothSymbolic {
		zzvAssert("symmetric", eab == b.Equals(a))
	}
	// clearly different bases or offsets are never equal
	zzvAssert("clearly-different-base-not-equal", zzvImplies(zzvOr(g2 > g1*1.000001, g2 < g1*0.999999), !eab))
	zzvAssert("clearly-different-offset-not-equal", zzvImplies(zzvOr(o2 > o1+0.001, o2 < o1-0.001), !eab))
	zzvAssert("equal-when-parameters-identical", zzvImplies(zzvAnd(g1 == g2, o1 == o2), eab))
}

func ZZ_C19_equality_pairs_log()      { zzC19Pair(0, false) }
func ZZ_C19_equality_pairs_linear()   { zzC19Pair(1, false) }
func ZZ_C19_equality_pairs_cubic()    { zzC19Pair(2, false) }
func ZZ_C19_equality_symmetric_X()    { zzC19Pair(0, true) }

// accuracies 0.1% or more apart give unequal logarithmic mappings (the base formula is exact IEEE
// division; for the interpolated kinds Pow is uninterpreted, so this is checked on a concrete grid)
func ZZ_C19_different_accuracies_unequal_grid() {
	zzvUnwind(100000)
	grid := []float64{1e-6, 1.001e-6, 0.001, 0.001001, 0.01, 0.01001, 0.02, 0.5, 0.5005, 0.99, 0.990991}
	zzvCover("grid")
	for i := range grid {
		for j := range grid {
			for kind := 0; kind < 3; kind++ {
				var a, b IndexMapping
				switch kind {
				case 0:
					a, _ = NewLogarithmicMapping(grid[i])
					b, _ = NewLogarithmicMapping(grid[j])
				case 1:
					a, _ = NewLinearlyInterpolatedMapping(grid[i])
					b, _ = NewLinearlyInterpolatedMapping(grid[j])
				default:
					a, _ = NewCubicallyInterpolatedMapping(grid[i])
					b, _ = NewCubicallyInterpolatedMapping(grid[j])
				}
				zzvAssert("grid-equal-iff-same-accuracy", a.Equals(b) == (i == j))
			}
		}
	}
}

func ZZ_C19_log_accuracies_apart_unequal_X() {
	a1 := zzvFloat64("alpha1")
	a2 := zzvFloat64("alpha2")
	zzvAssume(zzvAnd(a1 >= 1e-6, zzvAnd(a2 <= 0.99, a2 >= a1*1.001)))
	m1, e1 := NewLogarithmicMapping(a1)
	m2, e2 := NewLogarithmicMapping(a2)
	zzvAssume(e1 == nil && e2 == nil)
	zzvCover("pair")
	zzvAssert("accuracies-0.1%-apart-not-equal", !m1.Equals(m2))
}

// round 2: SEQUENCES of decodes. Two mappings of the same kind and the same gamma but different offsets
// (and the reverse: same offset, different gamma) are encoded one after the other and decoded in sequence:
// each decode returns its own mapping, whatever was decoded before.
func ZZ_C19_binary_roundtrip_sequence() {
	zzvBound("decode sequences", "two mappings of one kind (three kinds) sharing gamma or offset bit-for-bit, all finite gamma > 1 and offsets; decoded in sequence from one buffer")
	kind := zzvChoose("kind", 3)
	g, off := zzGammaOffset()
	g2, off2 := zzGammaOffset()
	if zzvChoose("shared", 2) == 0 {
		g2 = g
	} else {
		off2 = off
	}
	ma, mb := zzMake(kind, g, off), zzMake(kind, g2, off2)
	b := []byte{}
	ma.Encode(&b)
	mb.Encode(&b)
	zzvCover("built")
	rest := b
	for k, want := range []IndexMapping{ma, mb} {
		flag, err := enc.DecodeFlag(&rest)
		zzvAssert("flag-ok", err == nil && flag.Type() == enc.FlagTypeIndexMapping)
		got, err := Decode(&rest, flag)
		zzvAssert("decode-ok", err == nil)
		k1, f1 := zzFieldsOf(want)
		k2, f2 := zzFieldsOf(got)
		zzvAssert("same-kind", k1 == k2 && k1 == kind)
		zzvAssert("bit-identical-parameters-and-derived-fields-in-sequence", zzSameFields(f1, f2))
		_ = k
	}
	zzvAssert("all-consumed", len(rest) == 0)
}

// C09 (round 2): the mapping part of the protobuf round trip, for every base and offset (offset 0 included)
func ZZ_C09_mapping_proto_roundtrip() { ZZ_C19_proto_roundtrip() }

// C06/C07 (round 3): the mapping block of the binary format, for every base and offset (offset 0 included)
func ZZ_C06_mapping_binary_roundtrip() { ZZ_C19_binary_roundtrip() }
func ZZ_C07_mapping_binary_roundtrip() { ZZ_C19_binary_roundtrip() }
