//go:build verif

package ddsketch

import (
	"math"

	"github.com/DataDog/sketches-go/ddsketch/mapping"
	"github.com/DataDog/sketches-go/ddsketch/stat"
	"github.com/DataDog/sketches-go/ddsketch/store"
)

// C13 — invalid input is rejected with the documented error and changes nothing.
// Value, weight and quantile range over ALL float64 bit patterns (exact IEEE semantics).

func zzRealMapping(k int) mapping.IndexMapping {
	switch k {
	case 0:
		m, _ := mapping.NewLogarithmicMapping(0.01)
		return m
	case 1:
		m, _ := mapping.NewLinearlyInterpolatedMapping(0.02)
		return m
	default:
		m, _ := mapping.NewCubicallyInterpolatedMapping(0.005)
		return m
	}
}

// small sketch on sparse stores: empty or holding one positive and one negative bin
func zzSmallSketch(m mapping.IndexMapping, nonEmpty bool) *DDSketch {
	s := NewDDSketch(m, store.NewSparseStore(), store.NewSparseStore())
	if nonEmpty {
		s.positiveValueStore.AddWithCount(zzvIntIn("posIdx", -1000, 1000), 2)
		s.negativeValueStore.AddWithCount(zzvIntIn("negIdx", -1000, 1000), 3)
		s.zeroCount = 1
	}
	return s
}

type zzObs struct {
	count, zero, posTotal, negTotal float64
	empty                           bool
}

func zzObserve(s *DDSketch) zzObs {
	return zzObs{count: s.GetCount(), zero: s.GetZeroCount(), posTotal: s.positiveValueStore.TotalCount(), negTotal: s.negativeValueStore.TotalCount(), empty: s.IsEmpty()}
}
func zzObsSame(a, b zzObs) bool {
	return zzvAnd(zzvSameBits(a.count, b.count), zzvAnd(zzvSameBits(a.zero, b.zero), zzvAnd(zzvSameBits(a.posTotal, b.posTotal), zzvAnd(zzvSameBits(a.negTotal, b.negTotal), a.empty == b.empty))))
}

func zzC13Add(exact bool) {
	zzvBound("value and weight", "all 2^64 bit patterns of the value; all non-NaN bit patterns of the weight; the three real mapping kinds (their indexable range computed by the real constructors); sketch empty or holding one bin per side")
	m := zzRealMapping(zzvChoose("mapping", 3))
	s := zzSmallSketch(m, zzvChoose("nonEmpty", 2) == 1)
	var e *DDSketchWithExactSummaryStatistics
	if exact {
		st := stat.NewSummaryStatistics()
		if !s.IsEmpty() {
			st.Add(-1, 3)
			st.Add(0, 1)
			st.Add(2, 2)
		}
		e = &DDSketchWithExactSummaryStatistics{DDSketch: s, summaryStatistics: st}
	}
	v := zzvFloat64("value")
	c := zzvFloat64("weight")
	zzvAssume(c == c) // NaN weights are outside the documented contract
	before := zzObserve(s)
	var c0, s0, mn0, mx0 float64
	if exact {
		c0, s0, mn0, mx0 = e.summaryStatistics.Count(), e.summaryStatistics.Sum(), e.summaryStatistics.Min(), e.summaryStatistics.Max()
	}
	zzvCover("pre-state")
	var err error
	if exact {
		err = e.AddWithCount(v, c)
	} else {
		err = s.AddWithCount(v, c)
	}
	max := m.MaxIndexableValue()
	switch {
	case c < 0:
		zzvAssert("negative-weight-error", err == ErrNegativeCount)
	case v > max:
		if exact && c == 0 {
			zzvKnown("C13-exact-add-invalid-value-zero-weight")
		}
		zzvAssert("too-high-error", err == ErrUntrackableTooHigh)
	case v < -max:
		if exact && c == 0 {
			zzvKnown("C13-exact-add-invalid-value-zero-weight")
		}
		zzvAssert("too-low-error", err == ErrUntrackableTooLow)
	case v != v:
		if exact && c == 0 {
			zzvKnown("C13-exact-add-invalid-value-zero-weight")
		}
		zzvAssert("nan-error", err == ErrUntrackableNaN)
	default:
		zzvAssert("in-range-accepted", err == nil)
	}
	if err != nil {
		zzvAssert("refused-call-changes-nothing", zzObsSame(zzObserve(s), before))
		if exact {
			zzvAssert("refused-call-keeps-statistics", zzvAnd(zzvSameBits(e.summaryStatistics.Count(), c0), zzvAnd(zzvSameBits(e.summaryStatistics.Sum(), s0),
				zzvAnd(zzvSameBits(e.summaryStatistics.Min(), mn0), zzvSameBits(e.summaryStatistics.Max(), mx0)))))
		}
	}
}

func ZZ_C13_add_plain() { zzC13Add(false) }
func ZZ_C13_add_exact() { zzC13Add(true) }

func zzC13Quantile(exact bool) {
	zzvBound("quantile", "all 2^64 bit patterns of q incl. NaN, -0, the floats adjacent to 0 and 1; sketch empty or not; exact statistics spread out or with minimum == maximum")
	m := zzRealMapping(0)
	nonEmpty := zzvChoose("nonEmpty", 2) == 1
	s := zzSmallSketch(m, nonEmpty)
	q := zzvFloat64("q")
	zzvCover("pre-state")
	var err error
	if exact {
		st := stat.NewSummaryStatistics()
		if nonEmpty {
			if zzvChoose("allValuesIdentical", 2) == 1 {
				// everything absorbed was one and the same value: exact minimum == exact maximum
				st.Add(2, 6)
			} else {
				st.Add(-1, 3)
				st.Add(0, 1)
				st.Add(2, 2)
			}
		}
		e := &DDSketchWithExactSummaryStatistics{DDSketch: s, summaryStatistics: st}
		if zzvChoose("batch", 2) == 1 {
			_, err = e.GetValuesAtQuantiles([]float64{0.5, q})
		} else {
			_, err = e.GetValueAtQuantile(q)
		}
	} else {
		if zzvChoose("batch", 2) == 1 {
			_, err = s.GetValuesAtQuantiles([]float64{0.5, q})
		} else {
			_, err = s.GetValueAtQuantile(q)
		}
	}
	valid := q >= 0 && q <= 1
	if q != q {
		zzvKnown("C13-nan-quantile-accepted")
	}
	zzvAssert("quantile-error-iff-invalid-or-empty", (err != nil) == (!valid || !nonEmpty))
}

func ZZ_C13_quantile_plain() { zzC13Quantile(false) }
func ZZ_C13_quantile_exact() { zzC13Quantile(true) }

// constructors: finite parameters (NaN is outside the contract)
func ZZ_C13_constructors() {
	zzvBound("constructor parameters", "all non-NaN float64 accuracies / bases / offsets")
	a := zzvFloat64("alpha")
	zzvAssume(a == a)
	g := zzvFloat64("gamma")
	zzvAssume(g == g)
	off := zzvFloat64("offset")
	zzvAssume(off == off)
	zzvCover("params")
	bad := a <= 0 || a >= 1
	badG := g <= 1
	// For an accuracy in (0,1) the constructor must either build a mapping or (when the accuracy is
	// too small for the derived base to exceed one in float64) report an error — never (nil, nil).
	// Acceptance itself is asserted on the concrete accuracies of zzAcceptedAlphas.
	switch zzvChoose("ctor", 9) {
	case 0:
		m, err := mapping.NewLogarithmicMapping(a)
		zzvAssert("log-alpha-refused", !bad || (err != nil && m == nil))
		zzvAssert("log-alpha-nil-iff-error", (m == nil) == (err != nil))
	case 1:
		m, err := mapping.NewLinearlyInterpolatedMapping(a)
		zzvAssert("linear-alpha-refused", !bad || (err != nil && m == nil))
		zzvAssert("linear-alpha-nil-iff-error", (m == nil) == (err != nil))
	case 2:
		m, err := mapping.NewCubicallyInterpolatedMapping(a)
		zzvAssert("cubic-alpha-refused", !bad || (err != nil && m == nil))
		zzvAssert("cubic-alpha-nil-iff-error", (m == nil) == (err != nil))
	case 3:
		m, err := mapping.NewLogarithmicMappingWithGamma(g, off)
		zzvAssert("log-gamma", (err != nil) == badG && (m == nil) == badG)
	case 4:
		m, err := mapping.NewLinearlyInterpolatedMappingWithGamma(g, off)
		zzvAssert("linear-gamma", (err != nil) == badG && (m == nil) == badG)
	case 5:
		m, err := mapping.NewCubicallyInterpolatedMappingWithGamma(g, off)
		zzvAssert("cubic-gamma", (err != nil) == badG && (m == nil) == badG)
	case 6:
		_, err := mapping.NewDefaultMapping(a)
		zzvAssert("default-alpha-refused", !bad || err != nil)
		sk, err := NewDefaultDDSketch(a)
		zzvAssert("default-sketch-alpha-refused", !bad || err != nil)
		zzvAssert("default-sketch-nil-iff-error", (sk == nil) == (err != nil))
		sk, err = LogCollapsingLowestDenseDDSketch(a, 8)
		zzvAssert("collapsing-sketch-alpha-refused", !bad || err != nil)
		zzvAssert("collapsing-sketch-nil-iff-error", (sk == nil) == (err != nil))
	case 7:
		cnt := zzvFloat64("count")
		zzvAssume(cnt == cnt)
		b, err := store.NewBin(zzvInt("index"), cnt)
		zzvAssert("bin-negative-count", (err != nil) == (cnt < 0) && (b == nil) == (cnt < 0))
	case 8:
		cnt, sum, mn, mx := zzvFloat64("count"), zzvFloat64("sum"), zzvFloat64("min"), zzvFloat64("max")
		zzvAssume(cnt == cnt && mn == mn && mx == mx)
		_, err := stat.NewSummaryStatisticsFromData(cnt, sum, mn, mx)
		wantErr := cnt < 0 || (cnt > 0 && mn > mx) || (cnt == 0 && (mn != math.Inf(1) || mx != math.Inf(-1)))
		zzvAssert("statistics-from-data", (err != nil) == wantErr)
	}
}

// every accuracy of the grid is accepted by every constructor (concrete evaluation of the real code)
func ZZ_C13_constructors_accept() {
	for _, a := range []float64{1e-12, 1e-6, 0.001, 0.01, 0.5, 0.99, 0.999999} {
		m1, e1 := mapping.NewLogarithmicMapping(a)
		m2, e2 := mapping.NewLinearlyInterpolatedMapping(a)
		m3, e3 := mapping.NewCubicallyInterpolatedMapping(a)
		zzvAssert("grid-accuracy-accepted", e1 == nil && e2 == nil && e3 == nil && m1 != nil && m2 != nil && m3 != nil)
		sk, e4 := LogUnboundedDenseDDSketch(a)
		zzvAssert("grid-accuracy-sketch", e4 == nil && sk != nil)
	}
	zzvCover("grid")
}

// merging mismatched mappings and reweighting by a non-positive factor (state unchanged): the
// sketch-level steps of C02 / C16, listed here because they are part of the rejection contract
func ZZ_C13_merge_mismatch() { ZZ_C02_merge_noop_and_refusal() }
func ZZ_C13_reweight_refusal_plain() { zzC16Sketch(3, false) }
func ZZ_C13_reweight_refusal_exact() { zzC16Sketch(1, true) }
func ZZ_C13_real_mappings_of_different_kind_or_accuracy_do_not_merge() {
	a, b := zzvChoose("a", 4), zzvChoose("b", 4)
	mk := func(k int) mapping.IndexMapping {
		if k == 3 {
			m, _ := mapping.NewLogarithmicMapping(0.02)
			return m
		}
		return zzRealMapping(k)
	}
	s := zzSmallSketch(mk(a), true)
	o := zzSmallSketch(mk(b), true)
	before := zzObserve(s)
	zzvCover("pair")
	err := s.MergeWith(o)
	zzvAssert("merge-refused-iff-mappings-differ", (err != nil) == (a != b))
	if err != nil {
		zzvAssert("refused-merge-changes-nothing", zzObsSame(zzObserve(s), before))
	}
}
