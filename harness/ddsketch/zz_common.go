//go:build verif

package ddsketch

import (
	"github.com/DataDog/sketches-go/ddsketch/mapping"
	"github.com/DataDog/sketches-go/ddsketch/pb/sketchpb"
	"github.com/DataDog/sketches-go/ddsketch/stat"
	"github.com/DataDog/sketches-go/ddsketch/store"
)

// zzStubMapping: an index mapping whose Index/Value/LowerBound are deterministic uninterpreted
// functions. Used where the mapping's arithmetic is not the subject (structure, purity, algebra of
// the sketch). Two stub mappings are equal iff they carry the same id.
type zzStubMapping struct {
	id       int
	min, max float64
}

func (m *zzStubMapping) Equals(o mapping.IndexMapping) bool {
	om, ok := o.(*zzStubMapping)
	return ok && om.id == m.id
}
func (m *zzStubMapping) Index(v float64) int              { return zzvUFF64MInt("Index", v, -(1 << 31), (1<<31)-1) }
func (m *zzStubMapping) Value(i int) float64              { return zzvUFIntF64("Value", i) }
func (m *zzStubMapping) LowerBound(i int) float64         { return zzvUFIntF64("LowerBound", i) }
func (m *zzStubMapping) RelativeAccuracy() float64        { return 0.01 }
func (m *zzStubMapping) MinIndexableValue() float64       { return m.min }
func (m *zzStubMapping) MaxIndexableValue() float64       { return m.max }
func (m *zzStubMapping) ToProto() *sketchpb.IndexMapping  { return &sketchpb.IndexMapping{Gamma: 1.02} }
func (m *zzStubMapping) EncodeProto(b *sketchpb.IndexMappingBuilder) {}
func (m *zzStubMapping) Encode(b *[]byte)                 { *b = append(*b, 0xfe) }

func zzStub(id int) *zzStubMapping { return &zzStubMapping{id: id, min: 1e-300, max: 1e300} }

// zzSketch: a sketch whose two stores are in arbitrary valid states of the given kinds and whose
// zero weight is symbolic.
func zzSketch(tag string, m mapping.IndexMapping, kindPos, kindNeg int) *DDSketch {
	pos := store.ZZState(tag+".pos", kindPos)
	neg := store.ZZState(tag+".neg", kindNeg)
	zzvAssume(store.ZZInv(pos))
	zzvAssume(store.ZZInv(neg))
	return &DDSketch{IndexMapping: m, positiveValueStore: pos, negativeValueStore: neg, zeroCount: store.ZZW(tag + ".zero")}
}

type zzSnap struct {
	pos, neg store.Store
	zero     float64
}

func zzSnapSketch(s *DDSketch) zzSnap {
	return zzSnap{pos: store.ZZSnap(s.positiveValueStore), neg: store.ZZSnap(s.negativeValueStore), zero: s.zeroCount}
}

// content equality at a probe index, both sides, plus zero weight
func zzSameContent(s *DDSketch, g zzSnap, p int) bool {
	return zzvAnd(store.ZZAbs(s.positiveValueStore, p) == store.ZZAbs(g.pos, p),
		zzvAnd(store.ZZAbs(s.negativeValueStore, p) == store.ZZAbs(g.neg, p), s.zeroCount == g.zero))
}

func zzSameExact(s *DDSketch, g zzSnap) bool {
	return zzvAnd(store.ZZSameExact(s.positiveValueStore, g.pos), zzvAnd(store.ZZSameExact(s.negativeValueStore, g.neg), s.zeroCount == g.zero))
}

func zzInvSketch(s *DDSketch) bool {
	return zzvAnd(store.ZZInv(s.positiveValueStore), zzvAnd(store.ZZInv(s.negativeValueStore), s.zeroCount >= 0))
}

func zzProbe() int { return zzvMInt("probe", -(1 << 35), 1<<35) }

// statistics in an arbitrary consistent state for a sketch of total weight w
func zzStats(tag string, count float64, exactIEEEMinMax bool) *stat.SummaryStatistics {
	// built through the exported constructor so that only reachable field combinations arise
	if count == 0 {
		return stat.NewSummaryStatistics()
	}
	sum := store.ZZW(tag + ".sum")
	var mn, mx float64
	if exactIEEEMinMax {
		mn, mx = zzvFloat64(tag+".min"), zzvFloat64(tag+".max")
	} else {
		mn = zzvDyadic(tag+".min", 4, -(1 << 20), 1<<20)
		mx = zzvDyadic(tag+".max", 4, -(1 << 20), 1<<20)
	}
	zzvAssume(mn <= mx)
	st, err := stat.NewSummaryStatisticsFromData(count, sum, mn, mx)
	zzvAssume(err == nil)
	return st
}

// kinds of stores used at sketch level (see store.ZZState)
var zzQuickKinds = []int{1, 3, 5, 0, 2, 4}
