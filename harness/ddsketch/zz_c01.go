//go:build verif

package ddsketch

import (
	"math"

	"github.com/DataDog/sketches-go/ddsketch/store"
)

// C01 — relative accuracy of quantiles: real sketch + real store, mapping through its contract.

func zzC01Store(k int) store.Store {
	switch k {
	case 0:
		return store.NewSparseStore()
	case 1:
		return store.NewDenseStore()
	default:
		return store.NewBufferedPaginatedStore()
	}
}

func zzC01(n int, storeKind int) {
	zzvBound("inputs", "n values (every trackable float64 of either sign, zeros, sub-minimum magnitudes, duplicates, values sharing a bin) added one at a time with unit weight; every q in [0,1] (all bit patterns); mapping = any mapping satisfying the C03 contract; store = real sparse / dense / paginated store")
	// map iteration order is fixed here; independence from it is established for the sparse store
	// in C04 (all orders explored there)
	zzvMapOrders(2)
	zzvExactFloatsOnly()
	zzvAssumption("sketch-level accuracy harnesses iterate Go maps in insertion order; order independence of SparseStore observers is C04's obligation")
	m := zzContract()
	s := NewDDSketch(m, zzC01Store(storeKind), zzC01Store(storeKind))
	vals := make([]float64, n)
	eff := make([]float64, n)
	for i := range vals {
		vals[i] = zzTrackable(m, "v")
		eff[i] = zzEffective(m, vals[i])
	}
	if storeKind != 0 {
		// array / page-table growth is one fork per distance: indexes of values of the same sign lie
		// within 6 bins of each other in the dense and paginated configurations
		zzvBound("index spread (dense, paginated)", "bin indexes of same-signed values within 6 of each other")
		for i := range vals {
			for j := 0; j < i; j++ {
				a, b := vals[i], vals[j]
				if zzvAnd(a > m.min, b > m.min) {
					zzvAssume(zzNear(m.Index(a), m.Index(b), 6))
				}
				if zzvAnd(a < -m.min, b < -m.min) {
					zzvAssume(zzNear(m.Index(-a), m.Index(-b), 6))
				}
			}
		}
	}
	for i := range vals {
		zzvAssert("trackable-value-accepted", s.Add(vals[i]) == nil)
	}
	q := zzvFloat64("q")
	zzvAssume(zzvAnd(q >= 0, q <= 1))
	zzvCover("built")
	r, err := s.GetValueAtQuantile(q)
	zzvAssert("quantile-ok", err == nil)
	rank := q * float64(n-1)
	kLo, kHi := int(math.Floor(rank)), int(math.Ceil(rank))
	ok := false
	for j := range eff {
		isK := zzvOr(zzIsOrderStat(eff, eff[j], kLo), zzIsOrderStat(eff, eff[j], kHi))
		ok = zzvOr(ok, zzvAnd(isK, zzWithinBand(r, eff[j])))
	}
	zzvAssert("within-band-of-floor-or-ceil-order-statistic", ok)
	// q = 0 and q = 1 land in the bins of the true minimum / maximum
	r0, _ := s.GetValueAtQuantile(0)
	r1, _ := s.GetValueAtQuantile(1)
	ok0, ok1 := false, false
	for j := range eff {
		ok0 = zzvOr(ok0, zzvAnd(zzIsOrderStat(eff, eff[j], 0), zzWithinBand(r0, eff[j])))
		ok1 = zzvOr(ok1, zzvAnd(zzIsOrderStat(eff, eff[j], n-1), zzWithinBand(r1, eff[j])))
	}
	zzvAssert("q0-in-bin-of-minimum", ok0)
	zzvAssert("q1-in-bin-of-maximum", ok1)
}

// queries interleaved with additions: the answer after a later addition must reflect it (a store that
// caches anything at query time must invalidate it)
func zzC01Interleaved(storeKind int) {
	zzvBound("interleaved", "add one value, query, add a second value, query again (every q); real sparse / paginated store; contract mapping")
	zzvMapOrders(2)
	zzvExactFloatsOnly()
	m := zzContract()
	s := NewDDSketch(m, zzC01Store(storeKind), zzC01Store(storeKind))
	v1 := zzTrackable(m, "v")
	zzvAssert("first-accepted", s.Add(v1) == nil)
	r0, err0 := s.GetValueAtQuantile(0.5)
	zzvAssert("first-query", err0 == nil && zzWithinBand(r0, zzEffective(m, v1)))
	v2 := zzTrackable(m, "v")
	zzvAssert("second-accepted", s.Add(v2) == nil)
	eff := []float64{zzEffective(m, v1), zzEffective(m, v2)}
	q := zzvFloat64("q")
	zzvAssume(zzvAnd(q >= 0, q <= 1))
	zzvCover("built")
	r, err := s.GetValueAtQuantile(q)
	zzvAssert("quantile-ok", err == nil)
	rank := q * 1
	kLo, kHi := int(math.Floor(rank)), int(math.Ceil(rank))
	ok := false
	for j := range eff {
		isK := zzvOr(zzIsOrderStat(eff, eff[j], kLo), zzIsOrderStat(eff, eff[j], kHi))
		ok = zzvOr(ok, zzvAnd(isK, zzWithinBand(r, eff[j])))
	}
	zzvAssert("within-band-of-floor-or-ceil-order-statistic-after-interleaved-query", ok)
}
func ZZ_C01_sparse_interleaved_queries() { zzC01Interleaved(0) }
func ZZ_C01_pag_interleaved_queries()    { zzC01Interleaved(2) }

func ZZ_C01_sparse_n1() { zzC01(1, 0) }
func ZZ_C01_sparse_n2() { zzC01(2, 0) }
func ZZ_C01_sparse_n3() { zzC01(3, 0) }
func ZZ_C01_dense_n2_X()  { zzC01(2, 1) }
func ZZ_C01_pag_n2()    { zzC01(2, 2) }
func ZZ_C01_sparse_n4_T() { zzC01(4, 0) }
func ZZ_C01_dense_n3_X()  { zzC01(3, 1) }
func ZZ_C01_pag_n3_T()    { zzC01(3, 2) }

func zzNear(i, j, d int) bool { return zzvAnd(i-j <= d, j-i <= d) }
