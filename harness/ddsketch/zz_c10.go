//go:build verif

package ddsketch

import (
	"math"

	"github.com/DataDog/sketches-go/ddsketch/store"
)

// C10 — exact summary statistics. Linking invariant between the statistics and what was absorbed:
//   count = total weight of the inner sketch; empty <=> count == 0 (with +Inf/-Inf sentinels);
//   min/max = true extremes; sum = true weighted sum (exact on dyadic data).
// Each harness runs ONE operation from a state satisfying the invariant (ghost: the true values).

func zzExactState(kind int, exactIEEEMinMax bool) (*DDSketchWithExactSummaryStatistics, float64) {
	inner := zzSketch1("s", kind)
	count := store.ZZTotal(inner.positiveValueStore) + store.ZZTotal(inner.negativeValueStore) + inner.zeroCount
	e := &DDSketchWithExactSummaryStatistics{DDSketch: inner, summaryStatistics: zzStats("s", count, exactIEEEMinMax)}
	return e, count
}

func zzC10Add(exactIEEE bool) {
	zzvBound("add step", "sum/count run: arbitrary linked state (sparse stores M<=2 per side or empty), dyadic value, weight from {0, 1/2, 1, 3}; extremes run: state reached by zero or one earlier addition of an arbitrary trackable float64, then one addition of an arbitrary trackable float64 (all bit patterns)")
	if exactIEEE {
		zzvMapOrders(2)
		zzvExactFloatsOnly()
		e := NewDDSketchWithExactSummaryStatistics(zzStub(1), store.SparseStoreConstructor)
		st := e.summaryStatistics
		var v0 float64
		had := zzvChoose("earlierAddition", 2) == 1
		if had {
			v0 = zzvFloat64("earlier")
			zzvAssume(zzvAnd(v0 >= -1e300, v0 <= 1e300))
			zzvAssert("earlier-accepted", e.Add(v0) == nil)
		}
		v := zzvFloat64("value")
		zzvAssume(zzvAnd(v >= -1e300, v <= 1e300))
		w := []float64{0, 0.5, 1, 3}[zzvChoose("w", 4)]
		mn0, mx0, c0 := st.Min(), st.Max(), st.Count()
		zzvCover("pre-state")
		zzvAssert("accepted", e.AddWithCount(v, w) == nil)
		zzvAssert("count-tracks-weight", st.Count() == c0+w)
		zzvAssert("count-equals-inner-count", e.GetCount() == e.DDSketch.GetCount())
		zzvAssert("empty-iff-zero-weight", e.IsEmpty() == (c0+w == 0))
		if w == 0 {
			zzvAssert("zero-weight-leaves-extremes", zzvAnd(zzvSameBits(st.Min(), mn0), zzvSameBits(st.Max(), mx0)))
		} else {
			zzvAssert("min-is-true-min", st.Min() == zzvIteF64(v < mn0, v, mn0))
			zzvAssert("max-is-true-max", st.Max() == zzvIteF64(v > mx0, v, mx0))
			if had {
				zzvAssert("extremes-are-inputs", zzvAnd(zzvOr(st.Min() == v, st.Min() == v0), zzvOr(st.Max() == v, st.Max() == v0)))
				zzvAssert("extremes-bound-inputs", zzvAnd(zzvAnd(st.Min() <= v, st.Min() <= v0), zzvAnd(st.Max() >= v, st.Max() >= v0)))
			}
			mnv, e1 := e.GetMinValue()
			mxv, e2 := e.GetMaxValue()
			zzvAssert("reported-extremes-exact", e1 == nil && e2 == nil && mnv == st.Min() && mxv == st.Max())
		}
		return
	}
	kind := []int{3, 2}[zzvChoose("stateKind", 2)] // sparse M=2 / empty
	e, count := zzExactState(kind, false)
	st := e.summaryStatistics
	c0, s0, mn0, mx0 := st.Count(), st.Sum(), st.Min(), st.Max()
	zzvAssume(c0 == count)
	v := zzvDyadic("value", 4, -(1 << 20), 1<<20)
	w := []float64{0, 0.5, 1, 3}[zzvChoose("w", 4)]
	zzvCover("pre-state")
	var err error
	if w == 1 && zzvChoose("viaAdd", 2) == 1 {
		err = e.Add(v)
	} else {
		err = e.AddWithCount(v, w)
	}
	zzvAssert("accepted", err == nil)
	zzvAssert("count-tracks-weight", st.Count() == c0+w)
	zzvAssert("count-equals-inner-count", e.GetCount() == e.DDSketch.GetCount())
	zzvAssert("empty-iff-zero-weight", e.IsEmpty() == (c0+w == 0))
	if w == 0 {
		zzvAssert("zero-weight-leaves-extremes", zzvAnd(st.Min() == mn0, st.Max() == mx0))
		zzvAssert("zero-weight-leaves-sum", st.Sum() == s0)
	} else {
		zzvAssert("min-is-true-min", st.Min() == zzvIteF64(v < mn0, v, mn0))
		zzvAssert("max-is-true-max", st.Max() == zzvIteF64(v > mx0, v, mx0))
		zzvAssert("sum-exact-on-dyadic-data", st.Sum() == s0+v*w)
	}
}

func ZZ_C10_add_extremes() { zzC10Add(true) }
func ZZ_C10_add_sum()      { zzC10Add(false) }

func ZZ_C10_merge() {
	zzvBound("merge step", "two arbitrary linked states (sparse stores, possibly empty), dyadic statistics")
	ka := []int{3, 2}[zzvChoose("a", 2)]
	kb := []int{12, 2}[zzvChoose("b", 2)]
	a, ca := zzExactState(ka, false)
	innerB := zzSketch("o", zzStub(1), kb, kb)
	cb := store.ZZTotal(innerB.positiveValueStore) + store.ZZTotal(innerB.negativeValueStore) + innerB.zeroCount
	b := &DDSketchWithExactSummaryStatistics{DDSketch: innerB, summaryStatistics: zzStats("o", cb, false)}
	sa, sb := a.summaryStatistics, b.summaryStatistics
	zzvAssume(zzvAnd(sa.Count() == ca, sb.Count() == cb))
	c0, s0, mn0, mx0 := sa.Count(), sa.Sum(), sa.Min(), sa.Max()
	c1, s1, mn1, mx1 := sb.Count(), sb.Sum(), sb.Min(), sb.Max()
	zzvCover("pre-state")
	zzvAssert("merge-ok", a.MergeWith(b) == nil)
	zzvAssert("count-adds", sa.Count() == c0+c1)
	zzvAssert("sum-adds-exactly", sa.Sum() == s0+s1)
	zzvAssert("min-folds", sa.Min() == zzvIteF64(mn1 < mn0, mn1, mn0))
	zzvAssert("max-folds", sa.Max() == zzvIteF64(mx1 > mx0, mx1, mx0))
	zzvAssert("count-equals-inner-count", a.GetCount() == a.DDSketch.GetCount())
	zzvAssert("argument-statistics-unchanged", zzvAnd(sb.Count() == c1, zzvAnd(sb.Sum() == s1, zzvAnd(sb.Min() == mn1, sb.Max() == mx1))))
}

// quantile answers are the plain sketch's answers clamped to [min, max]
func ZZ_C10_quantile_clamping() {
	zzvBound("clamping", "inner answer, exact minimum and maximum over all float64 bit patterns (min <= max); q in {0, 1/4, 1/2, 1}")
	zzvMapOrders(2)
	e, count := zzExactState(12, true)
	zzvAssume(e.summaryStatistics.Count() == count)
	zzvAssume(count > 0)
	mn, mx := e.summaryStatistics.Min(), e.summaryStatistics.Max()
	q := []float64{0, 0.25, 0.5, 1}[zzvChoose("q", 4)]
	zzvCover("pre-state")
	plain, perr := e.DDSketch.GetValueAtQuantile(q)
	got, err := e.GetValueAtQuantile(q)
	zzvAssert("same-error", (err == nil) == (perr == nil))
	zzvAssume(plain == plain)
	want := zzvIteF64(plain < mn, mn, zzvIteF64(plain > mx, mx, plain))
	zzvAssert("clamped-answer", zzvSameBits(got, want) || got == want)
	zzvAssert("answer-within-exact-extremes", zzvAnd(mn <= got, got <= mx))
	zzvAssert("unclamped-when-already-inside", zzvImplies(zzvAnd(mn <= plain, plain <= mx), got == plain))
	both, err2 := e.GetValuesAtQuantiles([]float64{q, 1})
	zzvAssert("batch-ok", err2 == nil && len(both) == 2)
	zzvAssert("batch-clamped", both[0] == want)
	emn, e1 := e.GetMinValue()
	emx, e2 := e.GetMaxValue()
	zzvAssert("exact-extremes-reported", e1 == nil && e2 == nil && zzvSameBits(emn, mn) && zzvSameBits(emx, mx))
}

func ZZ_C10_empty_state() {
	e, _ := NewDefaultDDSketchWithExactSummaryStatistics(0.01)
	zzvCover("new")
	zzvAssert("new-is-empty", e.IsEmpty() && e.GetCount() == 0 && e.GetSum() == 0)
	_, e1 := e.GetMinValue()
	_, e2 := e.GetMaxValue()
	_, e3 := e.GetValueAtQuantile(0.5)
	zzvAssert("new-queries-err", e1 != nil && e2 != nil && e3 != nil)
	zzvAssert("new-sentinels", e.summaryStatistics.Min() == math.Inf(1) && e.summaryStatistics.Max() == math.Inf(-1))
}

// unit change: statistics are rescaled by the factor
func ZZ_C10_change_mapping_rescales() {
	zzvBound("rescale", "factors {1/2, 1, 2, 1000}; dyadic statistics; inner sketch empty (the bin redistribution is C17's subject)")
	inner := zzSketch("s", zzStub(1), 2, 2)
	inner.zeroCount = store.ZZW("zero")
	e := &DDSketchWithExactSummaryStatistics{DDSketch: inner, summaryStatistics: zzStats("s", inner.zeroCount, false)}
	st := e.summaryStatistics
	zzvAssume(st.Count() == inner.zeroCount)
	c0, s0, mn0, mx0 := st.Count(), st.Sum(), st.Min(), st.Max()
	f := []float64{0.5, 1, 2, 1000}[zzvChoose("factor", 4)]
	zzvCover("pre-state")
	r := e.ChangeMapping(zzStub(2), store.SparseStoreConstructor, f)
	rs := r.summaryStatistics
	zzvAssert("result-has-its-own-statistics", rs != st && zzvDisjoint(rs, st))
	zzvAssert("count-kept", rs.Count() == c0)
	zzvAssert("sum-rescaled", rs.Sum() == f*s0)
	zzvAssert("extremes-rescaled", zzvAnd(rs.Min() == zzvIteF64(c0 == 0, mn0, f*mn0), rs.Max() == zzvIteF64(c0 == 0, mx0, f*mx0)) || c0 == 0)
	zzvAssert("zero-weight-kept", r.DDSketch.zeroCount == inner.zeroCount)
	zzvAssert("source-statistics-unchanged", zzvAnd(st.Count() == c0, zzvAnd(st.Sum() == s0, zzvAnd(st.Min() == mn0, st.Max() == mx0))))
	zzvAssert("requested-mapping-carried", r.IndexMapping.Equals(zzStub(2)))
	// later operations on either sketch do not reach the other's statistics
	if zzvChoose("mutate", 2) == 0 {
		e.Clear()
		zzvAssert("result-statistics-independent-of-source", zzvAnd(rs.Count() == c0, rs.Sum() == f*s0))
	} else {
		r.Clear()
		zzvAssert("source-statistics-independent-of-result", zzvAnd(st.Count() == c0, st.Sum() == s0))
	}
}

// the remaining operations of the property's list are the sketch-level steps of C14/C15/C16
func ZZ_C10_copy_independent()   { zzC14Sketch(1, true) }
func ZZ_C10_clear_resets()       { zzC15Sketch(1, true) }
func ZZ_C10_reweight_scales()    { zzC16Sketch(3, true) }
func ZZ_C10_rejected_adds_leave_statistics() { zzC13Add(true) }
