//go:build verif

package ddsketch

import (
	"github.com/DataDog/sketches-go/ddsketch/mapping"
	"github.com/DataDog/sketches-go/ddsketch/stat"
	"github.com/DataDog/sketches-go/ddsketch/store"
)

// Harnesses added after the second round of seeded changes (DESIGN §12.10).

// the exact statistics of a converted sketch are its own, also for scale factor exactly 1
func ZZ_C14_change_mapping_statistics_independent()       { ZZ_C10_change_mapping_rescales() }
func ZZ_C17_exact_statistics_rescaled_and_independent() { ZZ_C10_change_mapping_rescales() }

// C13: a merge refused for mismatched mappings leaves the exact statistics (and everything else) alone
func ZZ_C13_merge_mismatch_exact() {
	zzvBound("refused exact merge", "receiver and argument with exact statistics in arbitrary valid states (sparse M=2 / dense L=3 stores), different mappings")
	kind := []int{3, 1}[zzvChoose("kind", 2)]
	e, _ := zzExact("s", kind, false)
	o, _ := zzExact("o", 3, false)
	o.IndexMapping = zzStub(2)
	g, gO := zzSnapSketch(e.DDSketch), zzSnapSketch(o.DDSketch)
	st, so := e.summaryStatistics, o.summaryStatistics
	c0, s0, mn0, mx0 := st.Count(), st.Sum(), st.Min(), st.Max()
	oc0, os0, omn0, omx0 := so.Count(), so.Sum(), so.Min(), so.Max()
	zzvCover("pre-state")
	err := e.MergeWith(o)
	zzvAssert("mismatched-merge-refused", err != nil)
	zzvAssert("refused-receiver-unchanged", zzSameExact(e.DDSketch, g))
	zzvAssert("refused-argument-unchanged", zzSameExact(o.DDSketch, gO))
	zzvAssert("refused-receiver-statistics-unchanged", zzvAnd(st.Count() == c0, zzvAnd(st.Sum() == s0, zzvAnd(st.Min() == mn0, st.Max() == mx0))))
	zzvAssert("refused-argument-statistics-unchanged", zzvAnd(so.Count() == oc0, zzvAnd(so.Sum() == os0, zzvAnd(so.Min() == omn0, so.Max() == omx0))))
	zzvAssert("refused-emptiness-unchanged", e.IsEmpty() == (c0 == 0))
}

// C15: Clear does not depend on what the statistics say. A sketch whose statistics are empty while its
// stores hold weight is reachable (a decode rejected for missing statistics has already merged the bins).
func ZZ_C15_exact_clear_with_bins_but_no_statistics() {
	zzvBound("exact clear", "stores of kinds {dense L=3, sparse M=2, paginated B=2} in arbitrary valid states, empty statistics")
	kind := zzQuickKinds[zzvChoose("kind", 3)]
	inner := zzSketch1("s", kind)
	e := &DDSketchWithExactSummaryStatistics{DDSketch: inner, summaryStatistics: stat.NewSummaryStatistics()}
	p := zzProbe()
	zzvCover("pre-state")
	e.Clear()
	zzvAssert("clear-content-zero", zzvAnd(store.ZZAbs(inner.positiveValueStore, p) == 0, zzvAnd(store.ZZAbs(inner.negativeValueStore, p) == 0, inner.zeroCount == 0)))
	zzvAssert("clear-empty", zzvAnd(inner.IsEmpty(), zzvAnd(e.IsEmpty(), inner.GetCount() == 0)))
	zzvAssert("clear-inv", zzInvSketch(inner))
}

// C15: after Clear the statistics are field-for-field those of a new sketch, whatever they held
// (non-finite sums included: values near the range limit overflow the exact sum)
func ZZ_C15_exact_clear_from_arbitrary_statistics() {
	zzvBound("exact clear", "all six statistics fields over all float64 bit patterns; sparse stores M=2")
	inner := zzSketch1("s", 3)
	e := &DDSketchWithExactSummaryStatistics{DDSketch: inner, summaryStatistics: stat.ZZArbitrary("st")}
	zzvCover("pre-state")
	e.Clear()
	zzvAssert("cleared-statistics-equal-new-field-for-field", stat.ZZSameStat(e.summaryStatistics, stat.NewSummaryStatistics()))
	zzvAssert("cleared-sum-is-zero", e.GetSum() == 0)
	zzvAssert("clear-empty", zzvAnd(inner.IsEmpty(), e.IsEmpty()))
}
func ZZ_C10_exact_clear_from_arbitrary_statistics() { ZZ_C15_exact_clear_from_arbitrary_statistics() }

// C12: the approximate sum, in the band form of the accuracy contract (no float multiplication needed):
// every absorbed value contributes a representative inside its accuracy band, so for same-signed data
// the sum lies between the sums of the band ends (float64 addition is monotone). Values below the
// smallest indexable magnitude count as 0.
func zzC12SumBand(n int, negative bool) {
	zzvBound("GetSum", "n same-signed trackable values (n <= 2) with unit weights on real sparse stores; mapping through the contract with an abstract accuracy band")
	zzvMapOrders(2)
	zzvExactFloatsOnly()
	zzvSolverSeconds(120)
	m := zzContract()
	s := NewDDSketch(m, store.NewSparseStore(), store.NewSparseStore())
	lo, hi := 0.0, 0.0
	for i := 0; i < n; i++ {
		v := zzTrackable(m, "v")
		zzvAssume(v >= 0)
		e := zzEffective(m, v)
		if negative {
			zzvAssert("accepted", s.Add(-v) == nil)
		} else {
			zzvAssert("accepted", s.Add(v) == nil)
		}
		if zzvChoose("indexable", 2) == 1 {
			zzvAssume(e > 0)
			zzBand(e)
			lo += zzLo(e)
			hi += zzHi(e)
		} else {
			zzvAssume(e == 0)
		}
	}
	zzvCover("built")
	got := s.GetSum()
	if negative {
		got = -got
	}
	zzvAssert("sum-between-the-sums-of-the-band-ends", zzvAnd(lo <= got, got <= hi))
}
func ZZ_C12_sum_band_positive_n1() { zzC12SumBand(1, false) }
func ZZ_C12_sum_band_negative_n1() { zzC12SumBand(1, true) }
func ZZ_C12_sum_band_positive_n2_X() { zzC12SumBand(2, false) }
func ZZ_C12_sum_band_negative_n2_X() { zzC12SumBand(2, true) }

// C08: every cut of a CONTIGUOUS-COUNTS block with several bins (dense source), weights whose varfloat
// takes one byte (1,2,3,5,7) or nine bytes (0.3, 0.75), into every consumer kind
func ZZ_C08_cuts_contiguous_counts() {
	zzvBound("contiguous-counts block", "dense source with 5 consecutive bins at base index from {-3, 0, 17}, weights from three grids (one-byte and nine-byte varfloats), every cut position, sparse / dense / paginated / collapsing consumers; expected outcome from the reference parser")
	m := zzRealMapping(0)
	src := NewDDSketch(m, store.NewDenseStore(), store.NewDenseStore())
	base := []int{-3, 0, 17}[zzvChoose("base", 3)]
	ws := [][]float64{{1, 2, 3, 5, 7}, {1, 0.3, 2, 1, 1}, {3, 1, 1, 1, 0.75}}[zzvChoose("weights", 3)]
	for k, w := range ws {
		src.positiveValueStore.AddWithCount(base+k, w)
	}
	b := []byte{}
	src.Encode(&b, false)
	zzvCover("encoded")
	zzvUnwind(100000)
	dstKind := zzvChoose("dstKind", 4)
	for cut := 0; cut <= len(b); cut++ {
		prefix := append([]byte{}, b[:cut]...)
		ref, ok := zzRefDecode(prefix)
		dst, err := DecodeDDSketch(prefix, zzProvider(dstKind), nil)
		if !ok {
			zzvAssert("cut-inside-a-block-is-an-error", err != nil)
			continue
		}
		if !ref.hasMapping {
			zzvAssert("cut-before-mapping-block-reports-missing-mapping", err != nil)
			continue
		}
		zzvAssert("boundary-cut-holds-exactly-the-complete-blocks", err == nil && dst.positiveValueStore.TotalCount() == zzRefTotal(ref.pos))
	}
}

// C01/C12: the batch query answers each requested quantile like the single query, for quantiles given in
// ANY order (descending and unsorted lists included), on both sides of the sketch
func zzBatchAnyOrder(n int) {
	zzvBound("batch quantiles", "n trackable values of either sign (unit weights, real sparse stores, contract mapping); two quantiles in [0,1] in any order (all bit patterns)")
	zzvMapOrders(2)
	zzvExactFloatsOnly()
	m := zzContract()
	s := NewDDSketch(m, store.NewSparseStore(), store.NewSparseStore())
	for i := 0; i < n; i++ {
		zzvAssert("trackable-value-accepted", s.Add(zzTrackable(m, "v")) == nil)
	}
	q1, q2 := zzvFloat64("q1"), zzvFloat64("q2")
	zzvAssume(zzvAnd(zzvAnd(q1 >= 0, q1 <= 1), zzvAnd(q2 >= 0, q2 <= 1)))
	zzvCover("built")
	r1, e1 := s.GetValueAtQuantile(q1)
	r2, e2 := s.GetValueAtQuantile(q2)
	both, e3 := s.GetValuesAtQuantiles([]float64{q1, q2})
	zzvAssert("queries-ok", e1 == nil && e2 == nil && e3 == nil && len(both) == 2)
	zzvAssert("batch-equals-singles-in-any-order", zzvAnd(zzvSameBits(both[0], r1), zzvSameBits(both[1], r2)))
}
func ZZ_C01_batch_any_order_n2() { zzBatchAnyOrder(2) }
func ZZ_C01_batch_any_order_n3() { zzBatchAnyOrder(3) }
func ZZ_C12_batch_any_order_n2() { zzBatchAnyOrder(2) }

// C02 (round 2): an argument that holds ONLY zero-bucket weight (both stores empty or cleared) still adds up
func ZZ_C02_sketch_merge_zero_bucket_only_argument() {
	zzvBound("zero-bucket-only argument", "receiver with stores of kinds {dense L=3, sparse M=2, paginated B=2} in arbitrary valid states; argument with empty stores (new or cleared, five layouts) and a symbolic dyadic zero weight")
	kind := zzQuickKinds[zzvChoose("kind", 3)]
	s := zzSketch("s", zzStub(1), kind, kind)
	g := zzSnapSketch(s)
	p := zzProbe()
	ek := []int{0, 2, 4, 9, 10}[zzvChoose("emptyKind", 5)]
	e := &DDSketch{IndexMapping: zzStub(1), positiveValueStore: store.ZZState("e.pos", ek), negativeValueStore: store.ZZState("e.neg", ek), zeroCount: store.ZZW("e.zero")}
	zzvAssume(zzInvSketch(e))
	z := e.zeroCount
	zzvCover("pre-state")
	zzvAssert("merge-ok", s.MergeWith(e) == nil)
	zzvAssert("zero-weight-adds-up", s.zeroCount == g.zero+z)
	zzvAssert("count-adds-up", s.GetCount() == store.ZZTotal(g.pos)+store.ZZTotal(g.neg)+g.zero+z)
	zzvAssert("bins-unchanged", zzvAnd(store.ZZAbs(s.positiveValueStore, p) == store.ZZAbs(g.pos, p), store.ZZAbs(s.negativeValueStore, p) == store.ZZAbs(g.neg, p)))
	zzvAssert("argument-unchanged", zzvAnd(e.zeroCount == z, zzvAnd(e.positiveValueStore.IsEmpty(), e.negativeValueStore.IsEmpty())))
	zzvAssert("empty-iff-no-weight", s.IsEmpty() == (s.GetCount() == 0))
}

// C07/C06 (round 2): index deltas and strides are 64-bit varints. Two valid int32 indexes can be almost
// 2^32 apart, so the delta between successive bins of a block does not fit 32 bits although every index does.
func zzC07WideDeltas(dstKind int) {
	zzvBound("wide index deltas", "reference-encoded bin blocks (layouts: index deltas with counts, index deltas with unit counts, contiguous counts with a stride) holding two bins at symbolic indexes i1 in [-2147483000,-1100000000] and i2 in [1100000000, 2147483000] (delta and stride beyond 2^31), decoded by the real decoder into a sparse store (all layouts) or a paginated store (unit counts: no page is allocated)")
	zzvExactFloatsOnly()
	i1 := zzvIntIn("i1", -2147483000, -1100000000)
	i2 := zzvIntIn("i2", 1100000000, 2147483000)
	g := &zzSrc{}
	var out []byte
	layout := zzvChoose("layout", 3)
	if dstKind == 2 {
		layout = 1
	}
	switch layout {
	case 0:
		out = append(out, 1|1<<2)
		out = zzPutUvarint(out, 2)
		out = zzPutVarfloat(zzPutVarint(out, int64(i1)), 2)
		out = zzPutVarfloat(zzPutVarint(out, int64(i2-i1)), 0.5)
		g.idx, g.w = []int{i1, i2}, []float64{2, 0.5}
	case 1:
		out = append(out, 1|2<<2)
		out = zzPutUvarint(out, 2)
		out = zzPutVarint(zzPutVarint(out, int64(i1)), int64(i2-i1))
		g.idx, g.w = []int{i1, i2}, []float64{1, 1}
	default:
		out = append(out, 1|3<<2)
		out = zzPutUvarint(out, 2)
		out = zzPutVarint(zzPutVarint(out, int64(i1)), int64(i2-i1))
		out = zzPutVarfloat(zzPutVarfloat(out, 3), 1)
		g.idx, g.w = []int{i1, i2}, []float64{3, 1}
	}
	m, _ := mapping.NewLogarithmicMapping(1e-7)
	zzvCover("stream")
	dst, err := DecodeDDSketch(out, zzProvider(dstKind), m)
	zzvAssert("well-formed-stream-with-wide-delta-accepted", err == nil)
	zzvAssert("positive-content", zzHoldsExactly(dst.positiveValueStore, g, 1))
	zzvAssert("negative-side-empty", dst.negativeValueStore.IsEmpty())
}
func ZZ_C07_wide_deltas_into_sparse() { zzC07WideDeltas(0) }
func ZZ_C07_wide_deltas_into_pag()    { zzC07WideDeltas(2) }
func ZZ_C06_wide_deltas_into_sparse() { zzC07WideDeltas(0) }

// C06 (round 2): FRACTIONAL weights that happen to sum to the number of non-empty bins (0.5+1.5,
// 0.25+0.75+2; reachable by Reweight(0.5) of weights 1 and 3) survive the round trip bin by bin,
// from every source kind into every target kind
func ZZ_C06_roundtrip_fractional_weights_summing_to_bin_count() {
	zzvBound("fractional weights", "source kinds {sparse, dense, paginated, lowest-collapsing}, 2 or 3 non-contiguous bins at a base index from {-40, 0, 1000} with weights {0.5,1.5}, {0.25,0.75,2} or {1.5,0.5,1}; targets {sparse, dense, paginated}; mapping embedded")
	m := zzRealMapping(0)
	srcKind, dstKind := zzvChoose("srcKind", 4), zzvChoose("dstKind", 3)
	src := NewDDSketch(m, zzProvider(srcKind)(), zzProvider(srcKind)())
	base := []int{-40, 0, 1000}[zzvChoose("base", 3)]
	ws := [][]float64{{0.5, 1.5}, {0.25, 0.75, 2}, {1.5, 0.5, 1}}[zzvChoose("weights", 3)]
	g := &zzSrc{}
	for k, w := range ws {
		idx := base + []int{0, 2, 7}[k]
		src.positiveValueStore.AddWithCount(idx, w)
		g.idx, g.w = append(g.idx, idx), append(g.w, w)
	}
	b := []byte{}
	src.Encode(&b, false)
	zzvCover("encoded")
	dst, err := DecodeDDSketch(b, zzProvider(dstKind), nil)
	zzvAssert("decode-ok", err == nil)
	zzvAssert("bin-weights-survive", zzHoldsExactly(dst.positiveValueStore, g, 1))
	ref, ok := zzRefDecode(b)
	zzvAssert("reference-decoder-agrees", ok && zzRefTotal(ref.pos) == g.total())
}

// C09 (round 2): the streaming writer on a paginated store that holds the SAME index several times in its
// buffer AND with a non-zero count on its page (unit adds followed by a weighted add before any compaction),
// plus buffered runs without a page and on a second page
func ZZ_C09_stream_pag_buffer_runs_over_pages() {
	zzvBound("paginated buffer runs", "paginated stores built by real code: runs of 1-3 unit adds of one index, then a weighted add (weights {3.5, 2}) of the same index, further buffered runs on the same page, on another page and on no page; base index from {0, 37, -70}; both sides")
	m := zzRealMapping(0)
	s := NewDDSketch(m, store.NewBufferedPaginatedStore(), store.NewBufferedPaginatedStore())
	b := []int{0, 37, -70}[zzvChoose("base", 3)]
	run := 1 + zzvChoose("run", 3)
	w := []float64{3.5, 2}[zzvChoose("weight", 2)]
	for _, st := range []store.Store{s.positiveValueStore, s.negativeValueStore} {
		for k := 0; k < run; k++ {
			st.Add(b)
		}
		st.AddWithCount(b, w)
		st.Add(b + 1)
		st.Add(b + 1)
		st.Add(b + 400)
		st.Add(b + 400)
		if zzvChoose("secondPage", 2) == 1 {
			st.AddWithCount(b+64, w)
			st.Add(b + 64)
		}
	}
	zzC09StreamOf(s)
}

// C10 (round 3): statistics after a REFUSED merge are those before it
func ZZ_C10_refused_merge_leaves_statistics() { ZZ_C13_merge_mismatch_exact() }

// C07 (round 3): EMPTY bin blocks are well-formed: N = 0 in any of the three layouts (the contiguous layout
// still carries its first index and stride), anywhere in the stream, into every store kind
func ZZ_C07_empty_blocks() {
	zzvBound("empty blocks", "reference-encoded stream: zero-count block, mapping block, then positive/negative bin blocks with N=0 in the three layouts (contiguous: symbolic first index in [-8000,8000] and stride from {-1,0,40}) around one non-empty positive block; decoded into sparse, dense, paginated and collapsing stores")
	zzvExactFloatsOnly()
	start := zzvIntIn("start", 200, 8000)
	if zzvChoose("negativeStart", 2) == 1 {
		start = -start
	}
	stride := zzStrides[zzvChoose("stride", len(zzStrides))]
	emptyContig := func(flagType byte) []byte {
		out := zzPutUvarint([]byte{flagType | 3<<2}, 0)
		return zzPutVarint(zzPutVarint(out, int64(start)), stride)
	}
	emptyDeltas := func(flagType byte, layout byte) []byte { return zzPutUvarint([]byte{flagType | layout<<2}, 0) }
	zero := 1.5
	stream := zzPutVarfloat([]byte{1 << 2}, zero)
	stream = zzPutFloat64LE(zzPutFloat64LE(append(stream, 2), 1.02020202020202), 0)
	blocks := [][]byte{emptyContig(1), emptyDeltas(1, 1), emptyDeltas(3, 2), emptyContig(3)}
	order := [][]int{{0, 1, 2, 3}, {3, 2, 1, 0}, {1, 0, 3, 2}}[zzvChoose("order", 3)]
	stream = append(stream, blocks[order[0]]...)
	stream = append(stream, blocks[order[1]]...)
	// one real bin so that the content is not empty: index 12, weight 2 (layout: index deltas and counts)
	stream = zzPutVarfloat(zzPutVarint(zzPutUvarint(append(stream, 1|1<<2), 1), 12), 2)
	stream = append(stream, blocks[order[2]]...)
	stream = append(stream, blocks[order[3]]...)
	zzvCover("stream")
	dst, err := DecodeDDSketch(stream, zzProvider(zzvChoose("dstKind", 4)), nil)
	zzvAssert("well-formed-stream-with-empty-blocks-accepted", err == nil)
	zzvAssert("content", dst.zeroCount == zero && dst.positiveValueStore.TotalCount() == 2 && store.ZZAbs(dst.positiveValueStore, 12) == 2 && dst.negativeValueStore.IsEmpty())
	ref, ok := zzRefDecode(stream)
	zzvAssert("reference-decoder-agrees", ok && zzRefTotal(ref.pos) == 2 && zzRefTotal(ref.neg) == 0)
}

// C12 (round 3): the exact-summary variant's reported extremes are those of what was absorbed with positive weight
func ZZ_C12_exact_extremes_ignore_zero_weight_adds() { zzC10Add(true) }
