//go:build verif

package ddsketch

import (
	"github.com/DataDog/sketches-go/ddsketch/stat"
	"github.com/DataDog/sketches-go/ddsketch/store"
)

// Harnesses added after the second round of seeded changes (DESIGN §12.10).

// the exact statistics of a converted sketch are its own, also for scale factor exactly 1
func ZZ_C14_change_mapping_statistics_independent()       { ZZ_C10_change_mapping_rescales() }
func ZZ_C17_exact_statistics_rescaled_and_independent() { ZZ_C10_change_mapping_rescales() }

// C13: a merge refused for mismatched mappings leaves the exact statistics (and everything else) alone
func ZZ_C13_merge_mismatch_exact() {
	zzvBound("refused exact merge", "receiver and argument with exact statistics in arbitrary valid states (sparse M=2 / dense L=3 stores), different mappings")
	kind := []int{3, 1}[zzvChoose("kind", 2)]
	e, _ := zzExact("s", kind, false)
	o, _ := zzExact("o", 3, false)
	o.IndexMapping = zzStub(2)
	g, gO := zzSnapSketch(e.DDSketch), zzSnapSketch(o.DDSketch)
	st, so := e.summaryStatistics, o.summaryStatistics
	c0, s0, mn0, mx0 := st.Count(), st.Sum(), st.Min(), st.Max()
	oc0, os0, omn0, omx0 := so.Count(), so.Sum(), so.Min(), so.Max()
	zzvCover("pre-state")
	err := e.MergeWith(o)
	zzvAssert("mismatched-merge-refused", err != nil)
	zzvAssert("refused-receiver-unchanged", zzSameExact(e.DDSketch, g))
	zzvAssert("refused-argument-unchanged", zzSameExact(o.DDSketch, gO))
	zzvAssert("refused-receiver-statistics-unchanged", zzvAnd(st.Count() == c0, zzvAnd(st.Sum() == s0, zzvAnd(st.Min() == mn0, st.Max() == mx0))))
	zzvAssert("refused-argument-statistics-unchanged", zzvAnd(so.Count() == oc0, zzvAnd(so.Sum() == os0, zzvAnd(so.Min() == omn0, so.Max() == omx0))))
	zzvAssert("refused-emptiness-unchanged", e.IsEmpty() == (c0 == 0))
}

// C15: Clear does not depend on what the statistics say. A sketch whose statistics are empty while its
// stores hold weight is reachable (a decode rejected for missing statistics has already merged the bins).
func ZZ_C15_exact_clear_with_bins_but_no_statistics() {
	zzvBound("exact clear", "stores of kinds {dense L=3, sparse M=2, paginated B=2} in arbitrary valid states, empty statistics")
	kind := zzQuickKinds[zzvChoose("kind", 3)]
	inner := zzSketch1("s", kind)
	e := &DDSketchWithExactSummaryStatistics{DDSketch: inner, summaryStatistics: stat.NewSummaryStatistics()}
	p := zzProbe()
	zzvCover("pre-state")
	e.Clear()
	zzvAssert("clear-content-zero", zzvAnd(store.ZZAbs(inner.positiveValueStore, p) == 0, zzvAnd(store.ZZAbs(inner.negativeValueStore, p) == 0, inner.zeroCount == 0)))
	zzvAssert("clear-empty", zzvAnd(inner.IsEmpty(), zzvAnd(e.IsEmpty(), inner.GetCount() == 0)))
	zzvAssert("clear-inv", zzInvSketch(inner))
}

// C15: after Clear the statistics are field-for-field those of a new sketch, whatever they held
// (non-finite sums included: values near the range limit overflow the exact sum)
func ZZ_C15_exact_clear_from_arbitrary_statistics() {
	zzvBound("exact clear", "all six statistics fields over all float64 bit patterns; sparse stores M=2")
	inner := zzSketch1("s", 3)
	e := &DDSketchWithExactSummaryStatistics{DDSketch: inner, summaryStatistics: stat.ZZArbitrary("st")}
	zzvCover("pre-state")
	e.Clear()
	zzvAssert("cleared-statistics-equal-new-field-for-field", stat.ZZSameStat(e.summaryStatistics, stat.NewSummaryStatistics()))
	zzvAssert("cleared-sum-is-zero", e.GetSum() == 0)
	zzvAssert("clear-empty", zzvAnd(inner.IsEmpty(), e.IsEmpty()))
}
func ZZ_C10_exact_clear_from_arbitrary_statistics() { ZZ_C15_exact_clear_from_arbitrary_statistics() }
