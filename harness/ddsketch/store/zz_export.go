//go:build verif

package store

// Exported wrappers so that sketch-level harnesses (package ddsketch) can obtain stores in an
// arbitrary valid state, their abstraction and their invariant.

// ZZKinds: 0 dense empty, 1 dense L=3, 2 sparse M=0, 3 sparse M=2, 4 paginated fresh,
// 5 paginated buffer B=2, 6 paginated two pages + 1 buffered, 7 lowest-collapsing N=2 full,
// 8 highest-collapsing N=2 full, 9 dense cleared-with-stale, 10 paginated cleared-with-stale
const ZZNumKinds = 14 // 11 dense L=1, 12 sparse M=1, 13 paginated B=1

func ZZState(tag string, kind int) Store {
	switch kind {
	case 0:
		return zzDenseState(tag, 0, 0)
	case 1:
		return zzDenseState(tag, 3, 0)
	case 2:
		s, _ := zzSparseState(tag, 0)
		return s
	case 3:
		s, _ := zzSparseState(tag, 2)
		return s
	case 4:
		return zzPagState(tag, zzPagCfgs(0))
	case 5:
		return zzPagState(tag, zzPagCfg{B: 2, bufExtra: 1, bufNear: 2})
	case 6:
		return zzPagState(tag, zzPagCfg{B: 1, bufExtra: 0, P: 8, full: []int{2, 3}, inUse: true, bufNear: 2, lines: []int{0, 31}})
	case 7:
		return zzLowestState(tag, 2, 2, 0)
	case 8:
		return zzHighestState(tag, 2, 2, 0)
	case 9:
		return zzDenseState(tag, 0, 3)
	case 10:
		return zzPagState(tag, zzPagCfgs(5))
	case 11:
		return zzDenseState(tag, 1, 0)
	case 12:
		s, _ := zzSparseState(tag, 1)
		return s
	case 13:
		return zzPagState(tag, zzPagCfg{B: 1, bufExtra: 1})
	}
	panic("ZZState: bad kind")
}

func ZZInv(s Store) bool {
	switch x := s.(type) {
	case *DenseStore:
		return zzInvDense(x)
	case *SparseStore:
		return zzInvSparse(x)
	case *BufferedPaginatedStore:
		return zzInvPag(x)
	case *CollapsingLowestDenseStore:
		return zzInvLowest(x)
	case *CollapsingHighestDenseStore:
		return zzInvHighest(x)
	}
	panic("ZZInv: unknown store kind")
}

// ZZAbs: weight the store holds at index p.
func ZZAbs(s Store, p int) float64 {
	switch x := s.(type) {
	case *DenseStore:
		return zzAbsDense(x, p)
	case *SparseStore:
		return zzAbsSparse(x, p)
	case *BufferedPaginatedStore:
		return zzAbsPag(x, p)
	case *CollapsingLowestDenseStore:
		return zzAbsDense(&x.DenseStore, p)
	case *CollapsingHighestDenseStore:
		return zzAbsDense(&x.DenseStore, p)
	}
	panic("ZZAbs: unknown store kind")
}

func ZZTotal(s Store) float64 {
	switch x := s.(type) {
	case *DenseStore:
		return zzSumCells(x.bins)
	case *SparseStore:
		return zzTotalSparse(x)
	case *BufferedPaginatedStore:
		return zzTotalPag(x)
	case *CollapsingLowestDenseStore:
		return zzSumCells(x.bins)
	case *CollapsingHighestDenseStore:
		return zzSumCells(x.bins)
	}
	panic("ZZTotal: unknown store kind")
}

// ZZSnap: deep ghost copy preserving the kind (written here, not using the store's own Copy).
func ZZSnap(s Store) Store {
	switch x := s.(type) {
	case *DenseStore:
		c := zzSnapDense(x)
		return &c
	case *SparseStore:
		c := NewSparseStore()
		zzvMapOrderFixed(true)
		for k, w := range x.counts {
			c.counts[k] = w
		}
		zzvMapOrderFixed(false)
		return c
	case *BufferedPaginatedStore:
		return zzSnapPag(x)
	case *CollapsingLowestDenseStore:
		return &CollapsingLowestDenseStore{DenseStore: zzSnapDense(&x.DenseStore), maxNumBins: x.maxNumBins, isCollapsed: x.isCollapsed}
	case *CollapsingHighestDenseStore:
		return &CollapsingHighestDenseStore{DenseStore: zzSnapDense(&x.DenseStore), maxNumBins: x.maxNumBins, isCollapsed: x.isCollapsed}
	}
	panic("ZZSnap: unknown store kind")
}

// ZZSameExact: field-by-field identity of two stores of the same kind (no reorganisation allowed).
func ZZSameExact(a, b Store) bool {
	switch x := a.(type) {
	case *DenseStore:
		return zzSameDense(x, b.(*DenseStore))
	case *SparseStore:
		y := b.(*SparseStore)
		if len(x.counts) != len(y.counts) {
			return false
		}
		ok := true
		zzvMapOrderFixed(true)
		for k, w := range x.counts {
			w2, found := y.counts[k]
			if !found {
				ok = false
			} else {
				ok = zzvAnd(ok, w == w2)
			}
		}
		zzvMapOrderFixed(false)
		return ok
	case *BufferedPaginatedStore:
		return zzSamePagExact(x, b.(*BufferedPaginatedStore))
	case *CollapsingLowestDenseStore:
		y := b.(*CollapsingLowestDenseStore)
		return zzvAnd(zzSameDense(&x.DenseStore, &y.DenseStore), zzvAnd(x.isCollapsed == y.isCollapsed, x.maxNumBins == y.maxNumBins))
	case *CollapsingHighestDenseStore:
		y := b.(*CollapsingHighestDenseStore)
		return zzvAnd(zzSameDense(&x.DenseStore, &y.DenseStore), zzvAnd(x.isCollapsed == y.isCollapsed, x.maxNumBins == y.maxNumBins))
	}
	panic("ZZSameExact: unknown store kind")
}

// ZZNear: constrain the index range of b to lie near a's (keeps array growth within the
// concretisation bound); true when either is empty.
func ZZNear(a, b Store, dist int) bool {
	amin, e1 := a.MinIndex()
	amax, e2 := a.MaxIndex()
	bmin, e3 := b.MinIndex()
	bmax, e4 := b.MaxIndex()
	if e1 != nil || e2 != nil || e3 != nil || e4 != nil {
		return true
	}
	return zzvAnd(bmin >= amin-dist, bmax <= amax+dist)
}

func ZZW(name string) float64    { return zzW(name) }
func ZZWPos(name string) float64 { return zzWPos(name) }
func ZZIdx(name string) int      { return zzIdx(name) }
func ZZFactor(k int) float64     { return zzWeightFactor(k) }

// ZZWithin: every index the store holds (and, for the paginated store, its page table) lies within
// d of the centre c. Keeps cross-kind merges within the array-growth bound.
func ZZWithin(s Store, c, d int) bool {
	switch x := s.(type) {
	case *DenseStore:
		if len(x.bins) == 0 {
			return true
		}
		return zzvAnd(x.minIndex >= c-d, x.maxIndex <= c+d)
	case *SparseStore:
		ok := true
		zzvMapOrderFixed(true)
		for k := range x.counts {
			ok = zzvAnd(ok, zzvAnd(k >= c-d, k <= c+d))
		}
		zzvMapOrderFixed(false)
		return ok
	case *BufferedPaginatedStore:
		ok := true
		for _, b := range x.buffer {
			ok = zzvAnd(ok, zzvAnd(b >= c-d, b <= c+d))
		}
		if x.minPageIndex != maxInt {
			ok = zzvAnd(ok, zzvAnd(x.minPageIndex<<5 >= c-d-128, x.minPageIndex<<5 <= c+d))
		}
		return ok
	case *CollapsingLowestDenseStore:
		return ZZWithin(&x.DenseStore, c, d)
	case *CollapsingHighestDenseStore:
		return ZZWithin(&x.DenseStore, c, d)
	}
	panic("ZZWithin: unknown store kind")
}

// ZZSumBelowEq: total weight the store holds at indexes <= x.
func ZZSumBelowEq(s Store, x int) float64 {
	switch st := s.(type) {
	case *DenseStore:
		return zzSumBelowEq(st, x)
	case *SparseStore:
		v := 0.0
		zzvMapOrderFixed(true)
		for k, w := range st.counts {
			v += zzvIteF64(k <= x, w, 0)
		}
		zzvMapOrderFixed(false)
		return v
	case *BufferedPaginatedStore:
		return zzSumBelowEqPag(st, x)
	case *CollapsingLowestDenseStore:
		return zzSumBelowEq(&st.DenseStore, x)
	case *CollapsingHighestDenseStore:
		return zzSumBelowEq(&st.DenseStore, x)
	}
	panic("ZZSumBelowEq: unknown store kind")
}
