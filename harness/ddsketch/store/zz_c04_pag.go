//go:build verif

package store

import (
	enc "github.com/DataDog/sketches-go/ddsketch/encoding"
	"github.com/DataDog/sketches-go/ddsketch/pb/sketchpb"
)

// C04 — BufferedPaginatedStore: buffer of unit-weight indexes + 32-wide count pages.

// zzPagShape: which page slots are allocated (len 32), which are allocated-but-truncated (len 0,
// cap 32, stale contents — what Clear leaves), out of P slots.
type zzPagCfg struct {
	B        int   // buffered entries (symbolic indexes)
	bufExtra int   // spare buffer capacity
	P        int   // page slots (0 or 8: one growth quantum)
	full     []int // slots holding a 32-cell page
	stale    []int // slots truncated by Clear (len 0, cap 32, stale cells)
	inUse    bool  // minPageIndex symbolic (true) or maxInt (false: pages unused)
	relBuf   []int // if non-nil: buffer entries are minPageIndex*32 + relBuf[j] (structure enumerated)
	lines    []int // page lines holding symbolic cells (nil: all 32); the other cells are 0
	bufNear  int   // >0: symbolic buffered indexes lie within bufNear pages of the page table
}

func zzPagState(tag string, cfg zzPagCfg) *BufferedPaginatedStore {
	s := &BufferedPaginatedStore{pageLenLog2: defaultPageLenLog2, pageLenMask: (1 << defaultPageLenLog2) - 1}
	if cfg.inUse {
		s.minPageIndex = zzvMInt(tag+".minPageIndex", -(1<<26)+16, (1<<26)-16)
	} else {
		s.minPageIndex = maxInt
	}
	buf := make([]int, cfg.B, cfg.B+cfg.bufExtra)
	for j := range buf {
		if cfg.relBuf != nil {
			buf[j] = s.minPageIndex<<5 + cfg.relBuf[j]
		} else {
			buf[j] = zzIdx(tag + ".buf")
			if !cfg.inUse && cfg.bufNear > 0 && j > 0 {
				// without a page table: buffered indexes within bufNear pages of the first one
				zzvAssume(zzvAnd(buf[j] >= buf[0]-cfg.bufNear*32, buf[j] <= buf[0]+cfg.bufNear*32))
			}
			if cfg.inUse && cfg.bufNear > 0 {
				zzvAssume(zzvAnd(buf[j] >= (s.minPageIndex-cfg.bufNear)<<5, buf[j] < (s.minPageIndex+8+cfg.bufNear)<<5))
			}
		}
	}
	s.buffer = buf
	s.bufferCompactionTriggerLen = zzvMInt(tag+".trigger", 0, 4096)
	if cfg.P > 0 {
		s.pages = make([][]float64, cfg.P)
		for _, k := range cfg.full {
			pg := make([]float64, 32)
			if cfg.lines == nil {
				for l := range pg {
					pg[l] = zzW(tag + ".pagecell")
				}
			} else {
				for _, l := range cfg.lines {
					pg[l] = zzW(tag + ".pagecell")
				}
			}
			s.pages[k] = pg
		}
		for _, k := range cfg.stale {
			pg := make([]float64, 32)
			for l := range pg {
				pg[l] = zzW(tag + ".stalecell")
			}
			s.pages[k] = pg[:0]
		}
	}
	return s
}

func zzInvPag(s *BufferedPaginatedStore) bool {
	if s.pageLenLog2 != 5 || s.pageLenMask != 31 {
		return false
	}
	ok := zzvAnd(s.bufferCompactionTriggerLen >= 0, true)
	unused := s.minPageIndex == maxInt
	ok = zzvAnd(ok, zzvOr(unused, zzvAnd(s.minPageIndex >= -(1<<26)-8, s.minPageIndex <= 1<<26)))
	for _, pg := range s.pages {
		if len(pg) != 0 && len(pg) != 32 {
			return false
		}
		if len(pg) != 0 {
			ok = zzvAnd(ok, !unused)
		}
		for _, c := range pg {
			ok = zzvAnd(ok, c >= 0)
		}
	}
	for _, b := range s.buffer {
		ok = zzvAnd(ok, zzvAnd(b >= -(1<<31), b < 1<<31))
	}
	return ok
}

// abstraction: weight held at index p = page cell at p (pages cover disjoint index ranges, so this is
// a selection, not a sum) + number of buffered entries equal to p
func zzAbsPag(s *BufferedPaginatedStore, p int) float64 {
	cell := 0.0
	for slot, pg := range s.pages {
		if len(pg) == 0 {
			continue
		}
		first := (s.minPageIndex + slot) << 5
		for l, c := range pg {
			cell = zzvIteF64(p == first+l, c, cell)
		}
	}
	if len(s.buffer) == 0 {
		return cell
	}
	n := 0.0
	for _, b := range s.buffer {
		n += zzvIteF64(b == p, 1, 0)
	}
	return cell + n
}
func zzTotalPag(s *BufferedPaginatedStore) float64 {
	v := float64(len(s.buffer))
	for _, pg := range s.pages {
		for _, c := range pg {
			v += c
		}
	}
	return v
}
func zzSumBelowEqPag(s *BufferedPaginatedStore, x int) float64 {
	v := 0.0
	for _, b := range s.buffer {
		v += zzvIteF64(b <= x, 1, 0)
	}
	for slot, pg := range s.pages {
		if len(pg) == 0 {
			continue
		}
		first := (s.minPageIndex + slot) << 5
		for l, c := range pg {
			v += zzvIteF64(first+l <= x, c, 0)
		}
	}
	return v
}

// deep ghost copy
func zzSnapPag(s *BufferedPaginatedStore) *BufferedPaginatedStore {
	c := *s
	c.buffer = append([]int(nil), s.buffer...)
	c.pages = make([][]float64, len(s.pages))
	for k, pg := range s.pages {
		if len(pg) > 0 {
			c.pages[k] = append([]float64(nil), pg...)
		}
	}
	return &c
}

func zzPagCfgs(k int) zzPagCfg {
	switch k {
	case 0: // fresh store
		return zzPagCfg{B: 0, bufExtra: 4}
	case 1: // buffer only, full capacity (compaction trigger reachable)
		return zzPagCfg{B: 2, bufExtra: 0, bufNear: 3}
	case 2: // buffer only, spare capacity
		return zzPagCfg{B: 3, bufExtra: 2, bufNear: 3}
	case 3: // one page in use + buffered entries
		return zzPagCfg{B: 2, bufExtra: 0, P: 8, full: []int{3}, inUse: true, bufNear: 4, lines: []int{0, 7, 31}}
	case 4: // two pages (one at slot 0, one at the last slot) + one buffered entry
		return zzPagCfg{B: 1, bufExtra: 1, P: 8, full: []int{0, 7}, inUse: true, bufNear: 4, lines: []int{0, 5, 31}}
	case 5: // cleared store: slots kept, pages truncated with stale cells, buffer capacity kept
		return zzPagCfg{B: 0, bufExtra: 3, P: 8, stale: []int{2, 3}}
	case 6: // adjacent pages, no buffer
		return zzPagCfg{B: 0, bufExtra: 0, P: 8, full: []int{3, 4}, inUse: true, lines: []int{0, 17, 31}}
	}
	return zzPagCfg{}
}

const zzNumPagCfgs = 7

func zzC04PagAdd(k int) {
	zzvBound("paginated state", "7 enumerated layouts (fresh; buffer-only with/without spare capacity, B<=3; one or two 32-cell pages in an 8-slot page table with B<=2 buffered entries; cleared store with stale truncated pages); buffered indexes, page base, compaction trigger, all 32 cells of each page symbolic")
	s := zzPagState("s", zzPagCfgs(k))
	zzvAssume(zzInvPag(s))
	pre := zzSnapPag(s)
	i := zzIdx("i")
	if s.minPageIndex != maxInt {
		// new index within 10 pages of the page table (page-table growth is one make per distance)
		zzvAssume(zzvAnd(i >= (s.minPageIndex-10)<<5, i < (s.minPageIndex+18)<<5))
	}
	p := zzvMInt("probe", -(1 << 35), 1<<35)
	zzvCover("pre-state")
	var c float64
	switch zzvChoose("op", 3) {
	case 0:
		c = 1
		s.Add(i)
	case 1:
		c = zzW("c") // includes 0 and 1, which take different paths
		s.AddWithCount(i, c)
	case 2:
		c = zzW("c")
		s.AddBin(Bin{index: i, count: c})
	}
	zzvAssert("inv-preserved", zzInvPag(s))
	zzvAssert("content", zzAbsPag(s, p) == zzAbsPag(pre, p)+zzvIteF64(p == i, c, 0))
	zzvAssert("total", zzTotalPag(s) == zzTotalPag(pre)+c)
}

func ZZ_C04_pag_add_0() { zzC04PagAdd(0) }
func ZZ_C04_pag_add_1() { zzC04PagAdd(1) }
func ZZ_C04_pag_add_2() { zzC04PagAdd(2) }
func ZZ_C04_pag_add_3() { zzC04PagAdd(3) }
func ZZ_C04_pag_add_4() { zzC04PagAdd(4) }
func ZZ_C04_pag_add_5() { zzC04PagAdd(5) }
func ZZ_C04_pag_add_6() { zzC04PagAdd(6) }

func zzSamePagContentAt(a, b *BufferedPaginatedStore, p int) bool {
	return zzAbsPag(a, p) == zzAbsPag(b, p)
}

// structural equality (used for "argument unchanged" where no reorganisation is allowed)
func zzSamePagExact(a, b *BufferedPaginatedStore) bool {
	if len(a.buffer) != len(b.buffer) || len(a.pages) != len(b.pages) {
		return false
	}
	ok := zzvAnd(a.minPageIndex == b.minPageIndex, a.bufferCompactionTriggerLen == b.bufferCompactionTriggerLen)
	for k := range a.buffer {
		ok = zzvAnd(ok, a.buffer[k] == b.buffer[k])
	}
	for k := range a.pages {
		if len(a.pages[k]) != len(b.pages[k]) {
			return false
		}
		for l := range a.pages[k] {
			ok = zzvAnd(ok, a.pages[k][l] == b.pages[k][l])
		}
	}
	return ok
}

func zzC04PagMergePag(ks, ko int) {
	zzvBound("paginated merge", "receiver and argument layouts from the enumerated set; page tables within 6 pages of each other")
	s := zzPagState("s", zzPagCfgs(ks))
	o := zzPagState("o", zzPagCfgs(ko))
	zzvAssume(zzInvPag(s))
	zzvAssume(zzInvPag(o))
	if s.minPageIndex != maxInt && o.minPageIndex != maxInt {
		zzvAssume(zzvAnd(o.minPageIndex >= s.minPageIndex-6, o.minPageIndex <= s.minPageIndex+6))
	}
	preS, preO := zzSnapPag(s), zzSnapPag(o)
	p := zzvMInt("probe", -(1 << 35), 1<<35)
	zzvCover("pre-state")
	s.MergeWith(o)
	zzvAssert("inv-preserved", zzInvPag(s))
	zzvAssert("content", zzAbsPag(s, p) == zzAbsPag(preS, p)+zzAbsPag(preO, p))
	zzvAssert("total", zzTotalPag(s) == zzTotalPag(preS)+zzTotalPag(preO))
	zzvAssert("argument-unchanged", zzSamePagExact(o, preO))
	zzvAssert("receiver-and-argument-share-no-memory", zzvDisjoint(s, o))
}

func ZZ_C04_pag_merge_pag_0_3() { zzC04PagMergePag(0, 3) }
func ZZ_C04_pag_merge_pag_2_2() { zzC04PagMergePag(2, 2) }
func ZZ_C04_pag_merge_pag_3_4_T() { zzC04PagMergePag(3, 4) }
func ZZ_C04_pag_merge_pag_4_6() { zzC04PagMergePag(4, 6) }
func ZZ_C04_pag_merge_pag_5_6() { zzC04PagMergePag(5, 6) }
func ZZ_C04_pag_merge_pag_6_1() { zzC04PagMergePag(6, 1) }

func zzC04PagCopyClearReweight(k int) {
	s := zzPagState("s", zzPagCfgs(k))
	zzvAssume(zzInvPag(s))
	pre := zzSnapPag(s)
	p := zzvMInt("probe", -(1 << 35), 1<<35)
	zzvCover("pre-state")
	switch zzvChoose("op", 4) {
	case 0:
		cp := s.Copy().(*BufferedPaginatedStore)
		zzvAssert("copy-inv", zzInvPag(cp))
		zzvAssert("copy-equal", zzAbsPag(cp, p) == zzAbsPag(pre, p))
		zzvAssert("original-unchanged-by-copy", zzSamePagExact(s, pre))
		zzvAssert("copy-shares-no-memory-with-original", zzvDisjoint(s, cp))
		i := zzIdx("i")
		if s.minPageIndex != maxInt {
			zzvAssume(zzvAnd(i >= (s.minPageIndex-2)<<5, i < (s.minPageIndex+10)<<5))
		}
		c := zzW("c")
		nm := 2
		if len(pre.buffer) == 0 {
			nm = 3 // the both-lines case only for the layouts without buffered entries (fresh, cleared, pages only)
		}
		switch zzvChoose("mutate", nm) {
		case 0:
			s.AddWithCount(i, c)
			zzvAssert("copy-independent-of-original", zzAbsPag(cp, p) == zzAbsPag(pre, p))
		case 1:
			cp.AddWithCount(i, c)
			zzvAssert("original-independent-of-copy", zzAbsPag(s, p) == zzAbsPag(pre, p))
		case 2:
			// both lines reuse their memory (e.g. pages kept by an earlier Clear): each sees only its own addition
			d := zzWPos("d")
			j := i + []int{0, 1, 40}[zzvChoose("secondIndex", 3)]
			zzvAssume(zzvAnd(j >= -(1<<31), j < 1<<31))
			s.AddWithCount(i, c)
			cp.AddWithCount(j, d)
			zzvAssert("original-sees-only-its-own-addition", zzAbsPag(s, p) == zzAbsPag(pre, p)+zzvIteF64(p == i, c, 0))
			zzvAssert("copy-sees-only-its-own-addition", zzAbsPag(cp, p) == zzAbsPag(pre, p)+zzvIteF64(p == j, d, 0))
			zzvAssert("both-keep-the-invariant", zzvAnd(zzInvPag(s), zzInvPag(cp)))
		}
	case 1:
		s.Clear()
		zzvAssert("clear-inv", zzInvPag(s))
		zzvAssert("clear-empty", zzvAnd(s.IsEmpty(), s.TotalCount() == 0))
		zzvAssert("clear-content-zero", zzAbsPag(s, p) == 0)
	case 2:
		w := zzWeightFactor(zzvChoose("w", 5))
		zzvAssert("reweight-ok", s.Reweight(w) == nil)
		zzvAssert("inv-preserved", zzInvPag(s))
		zzvAssert("content-scaled", zzAbsPag(s, p) == w*zzAbsPag(pre, p))
		zzvAssert("total-scaled", zzTotalPag(s) == w*zzTotalPag(pre))
	case 3:
		w := zzvDyadic("w", zzG, -zzWMax, 0)
		zzvAssert("nonpositive-factor-refused", s.Reweight(w) != nil)
		zzvAssert("refused-unchanged", zzSamePagExact(s, pre))
	}
}

func ZZ_C04_pag_copy_clear_reweight_0() { zzC04PagCopyClearReweight(0) }
func ZZ_C04_pag_copy_clear_reweight_1() { zzC04PagCopyClearReweight(1) }
func ZZ_C04_pag_copy_clear_reweight_2_T() { zzC04PagCopyClearReweight(2) }
func ZZ_C04_pag_copy_clear_reweight_3() { zzC04PagCopyClearReweight(3) }
func ZZ_C04_pag_copy_clear_reweight_4() { zzC04PagCopyClearReweight(4) }
func ZZ_C04_pag_copy_clear_reweight_5() { zzC04PagCopyClearReweight(5) }

// observers: layouts with symbolic buffer but no pages, and layouts with pages whose buffered
// entries are at enumerated positions relative to the page table (interleavings of buffer and page
// lines are enumerated; base, cells and rank stay symbolic)
func zzPagObsCfg(k int) zzPagCfg {
	switch k {
	case 0:
		return zzPagCfg{B: 0, bufExtra: 4}
	case 1:
		return zzPagCfg{B: 3, bufExtra: 1}
	case 2:
		return zzPagCfg{B: 1, bufExtra: 0, P: 8, full: []int{3}, inUse: true, bufNear: 4, lines: []int{0, 9, 31}}
	case 3:
		return zzPagCfg{B: 0, bufExtra: 3, P: 8, stale: []int{2, 3}}
	case 4:
		return zzPagCfg{B: 3, bufExtra: 0, P: 8, full: []int{3}, inUse: true, relBuf: []int{3*32 + 5, 2*32 + 31, 3*32 + 5}, lines: []int{0, 5, 6, 31}}
	case 5:
		return zzPagCfg{B: 3, bufExtra: 0, P: 8, full: []int{0, 7}, inUse: true, relBuf: []int{8 * 32, -1, 40}, lines: []int{0, 31}}
	case 6:
		return zzPagCfg{B: 2, bufExtra: 0, P: 8, full: []int{3, 4}, inUse: true, relBuf: []int{4 * 32, 3*32 + 31}, lines: []int{0, 30, 31}}
	}
	return zzPagCfg{}
}

func zzC04PagObservers(k int) {
	zzvBound("paginated observers", "layouts: fresh; symbolic buffer B=3 without pages; one page + 1 symbolic buffered index; cleared store; three layouts with 1-2 pages and 2-3 buffered indexes at enumerated positions (inside a page, just below/above it, duplicates); pages hold 2-4 symbolic cells at listed lines, the other cells are 0")
	s := zzPagState("s", zzPagObsCfg(k))
	zzvAssume(zzInvPag(s))
	pre := zzSnapPag(s)
	total := zzTotalPag(pre)
	q := zzvMInt("probe", -(1 << 35), 1<<35)
	zzvCover("pre-state")
	switch zzvChoose("observer", 5) {
	case 0:
		zzvAssert("total-count", s.TotalCount() == total)
		zzvAssert("is-empty", s.IsEmpty() == (total == 0))
	case 1:
		mn, err := s.MinIndex()
		mx, err2 := s.MaxIndex()
		zzvAssert("min-max-error-iff-empty", zzvAnd((err != nil) == (total == 0), (err2 != nil) == (total == 0)))
		if err == nil && err2 == nil {
			zzvAssert("min-nonempty", zzAbsPag(pre, mn) > 0)
			zzvAssert("max-nonempty", zzAbsPag(pre, mx) > 0)
			zzvAssert("nothing-below-min", zzvImplies(q < mn, zzAbsPag(pre, q) == 0))
			zzvAssert("nothing-above-max", zzvImplies(q > mx, zzAbsPag(pre, q) == 0))
		}
	case 2:
		rank := zzvDyadic("rank", zzG, -zzWMax, 64*zzWMax)
		zzvAssume(total > 0)
		r := s.KeyAtRank(rank)
		rk := zzvIteF64(rank < 0, 0, rank)
		zzvAssert("rank-first-exceeding", zzvImplies(rk < total, zzvAnd(zzSumBelowEqPag(pre, r) > rk, zzSumBelowEqPag(pre, r-1) <= rk)))
		zzvAssert("rank-clamped-to-max", zzvImplies(rk >= total, zzvAnd(zzAbsPag(pre, r) > 0, zzSumBelowEqPag(pre, r) == total)))
	case 3:
		stopAfter := zzvChoose("stopAfter", 3)
		var idxs []int
		var ws []float64
		s.ForEach(func(index int, count float64) bool {
			idxs = append(idxs, index)
			ws = append(ws, count)
			return stopAfter != 0 && len(idxs) == stopAfter
		})
		sum := 0.0
		found := false
		for j := range idxs {
			zzvAssert("foreach-weight", zzvAnd(ws[j] > 0, ws[j] == zzAbsPag(pre, idxs[j])))
			if j > 0 {
				zzvAssert("foreach-increasing", idxs[j] > idxs[j-1])
			}
			sum += ws[j]
			found = zzvOr(found, idxs[j] == q)
		}
		if stopAfter == 0 {
			zzvAssert("foreach-total", sum == total)
			zzvAssert("foreach-complete", zzvImplies(zzAbsPag(pre, q) > 0, found))
		} else {
			zzvAssert("foreach-stops", len(idxs) <= stopAfter)
		}
	case 4:
		var idxs []int
		sum := 0.0
		found := false
		for b := range s.Bins() {
			zzvAssert("bins-weight", zzvAnd(b.count > 0, b.count == zzAbsPag(pre, b.index)))
			if len(idxs) > 0 {
				zzvAssert("bins-increasing", b.index > idxs[len(idxs)-1])
			}
			idxs = append(idxs, b.index)
			sum += b.count
			found = zzvOr(found, b.index == q)
		}
		zzvAssert("bins-total", sum == total)
		zzvAssert("bins-complete", zzvImplies(zzAbsPag(pre, q) > 0, found))
	}
	// observers may sort/compact but must keep the represented map and the invariant
	zzvAssert("observer-inv", zzInvPag(s))
	zzvAssert("observer-content-preserved", zzAbsPag(s, q) == zzAbsPag(pre, q))
}

func ZZ_C04_pag_observers_0() { zzC04PagObservers(0) }
func ZZ_C04_pag_observers_1() { zzC04PagObservers(1) }
func ZZ_C04_pag_observers_2() { zzC04PagObservers(2) }
func ZZ_C04_pag_observers_3() { zzC04PagObservers(3) }
func ZZ_C04_pag_observers_4() { zzC04PagObservers(4) }
func ZZ_C04_pag_observers_5() { zzC04PagObservers(5) }
func ZZ_C04_pag_observers_6() { zzC04PagObservers(6) }

// ---------- round 3: one DECODE step from an arbitrary valid paginated state ----------
// An index-delta block (three unit-weight indexes near the page table / the buffered entries, written by
// the real varint encoder) decoded into any of the enumerated layouts with a SYMBOLIC compaction trigger
// (states with trigger < len(buffer) <= cap(buffer) arise after a compaction followed by further unit adds):
// every byte of the block and no more is consumed, the invariant holds and the content is the old content
// plus one unit per decoded index.
func zzC04PagDecodeDeltas(k int) {
	zzvBound("paginated decode step", "enumerated layouts as for the add step (buffered indexes, compaction trigger in [0,4096], page cells symbolic; page base from {0,-3,1000}); a block of three index deltas at enumerated offsets from the page base / 0, followed by two further bytes that must be left unread")
	s := zzPagState("s", zzPagCfgs(k))
	zzvAssume(zzInvPag(s))
	pre := zzSnapPag(s)
	// the block is a byte string: the page base is pinned to an enumerated value for this step
	base := 0
	if s.minPageIndex != maxInt {
		K := []int{0, -3, 1000}[zzvChoose("pageBase", 3)]
		zzvAssume(s.minPageIndex == K)
		base = K << 5
	}
	offs := [][]int{{3, -7, 3}, {40, 41, 300}}[zzvChoose("offsets", 2)]
	p := zzvMInt("probe", -(1 << 35), 1<<35)
	zzvCover("pre-state")
	// the deltas are written relative to a symbolic base: first delta = base+offs[0] is symbolic, hence
	// the block is assembled from the real encoder's output for each delta
	b := []byte{}
	enc.EncodeUvarint64(&b, 3)
	prev := 0
	for _, o := range offs {
		enc.EncodeVarint64(&b, int64(base+o-prev))
		prev = base + o
	}
	n := len(b)
	b = append(b, 0x55, 0x01)
	err := s.DecodeAndMergeWith(&b, enc.BinEncodingIndexDeltas)
	zzvAssert("decode-ok", err == nil)
	zzvAssert("exactly-the-block-is-consumed", len(b) == 2 && n > 0)
	zzvAssert("inv-preserved", zzInvPag(s))
	add := 0.0
	for _, o := range offs {
		add += zzvIteF64(p == base+o, 1, 0)
	}
	zzvAssert("content", zzAbsPag(s, p) == zzAbsPag(pre, p)+add)
	zzvAssert("total", zzTotalPag(s) == zzTotalPag(pre)+3)
}
func ZZ_C04_pag_decode_deltas_1() { zzC04PagDecodeDeltas(1) }
func ZZ_C04_pag_decode_deltas_2() { zzC04PagDecodeDeltas(2) }
func ZZ_C04_pag_decode_deltas_3() { zzC04PagDecodeDeltas(3) }
func ZZ_C04_pag_decode_deltas_5() { zzC04PagDecodeDeltas(5) }
func ZZ_C06_pag_decode_deltas_into_used_store() { zzC04PagDecodeDeltas(3) }

// ---------- round 3: protobuf bins merged into a CLEARED paginated store (stale truncated pages) ----------
// A message whose contiguous counts span three pages, merged through the package-level MergeWithProto and
// through the method, into a cleared store all of whose page slots still hold stale cells: the content is
// exactly the message's (no stale weight reappears).
func zzPagMergeProtoIntoCleared(viaMethod bool) {
	zzvBound("proto into cleared paginated store", "cleared store with 8 page slots, all truncated with symbolic stale cells, spare buffer capacity; message with 96 contiguous counts (three pages; counts from a fixed sparse pattern incl. an all-zero middle page or a middle page with one count) at page base from {0,-3}, with or without two sparse bins")
	s := zzPagState("s", zzPagCfg{B: 0, bufExtra: 3, P: 8, stale: []int{0, 1, 2, 3, 4, 5, 6, 7}})
	zzvAssume(zzInvPag(s))
	K := []int{0, -3}[zzvChoose("pageBase", 2)]
	counts := make([]float64, 96)
	counts[0], counts[31], counts[95] = 0.5, 2, 1
	if zzvChoose("middle", 2) == 1 {
		counts[40] = 3
	}
	sparse := zzvChoose("withSparseBins", 2) == 1
	msg := &sketchpb.Store{ContiguousBinCounts: counts, ContiguousBinIndexOffset: int32(K << 5)}
	if sparse {
		msg.BinCounts = map[int32]float64{int32(K<<5 + 200): 1, int32(K<<5 - 70): 2.5}
	}
	p := zzvMInt("probe", -(1 << 35), 1<<35)
	zzvCover("pre-state")
	if viaMethod {
		s.MergeWithProto(msg)
	} else {
		MergeWithProto(s, msg)
	}
	zzvAssert("inv-preserved", zzInvPag(s))
	want := 0.0
	for k, c := range counts {
		if c != 0 {
			want += zzvIteF64(p == K<<5+k, c, 0)
		}
	}
	tot := 3.5
	if sparse {
		want += zzvIteF64(p == K<<5+200, 1, 0) + zzvIteF64(p == K<<5-70, 2.5, 0)
		tot += 3.5
	}
	zzvAssert("content-is-the-message", zzAbsPag(s, p) == want)
	if counts[40] != 0 {
		tot += 3
	}
	zzvAssert("total-is-the-message-total", zzTotalPag(s) == tot)
}
func ZZ_C09_proto_into_cleared_pag_function() { zzPagMergeProtoIntoCleared(false) }
func ZZ_C09_proto_into_cleared_pag_method()   { zzPagMergeProtoIntoCleared(true) }
func ZZ_C15_proto_into_cleared_pag()          { zzPagMergeProtoIntoCleared(false) }
