//go:build verif

package store

// C04 — DenseStore is an exact index->weight map (one inductive step per operation).

func zzDenseState(tag string, L, extra int) *DenseStore {
	s := zzDenseRaw(tag, L, extra)
	return &s
}

func zzDenseR() int { return 12 } // distance bound of a new index from the window (quick)

func zzC04DenseAdd(L int) {
	zzvBound("dense window", "array length L in {0,1,4} with all cells symbolic plus 0 or 2 stale cells beyond len; window base unconstrained in int32; new index within 12 of the window (each feasible grown length is one fork)")
	s := zzDenseState("s", L, []int{0, 2, 9}[zzvChoose("staleCells", 3)])
	zzvAssume(zzInvDense(s))
	pre := zzSnapDense(s)
	i := zzIdx("i")
	c := zzW("c") // includes 0
	if L > 0 {
		zzvAssume(zzvAnd(i >= s.minIndex-zzDenseR(), i <= s.maxIndex+zzDenseR()))
	}
	zzvCover("pre-state")
	s.AddWithCount(i, c)
	zzvAssert("inv-preserved", zzInvDense(s))
	zzvAssert("count-conserved", s.count == pre.count+c)
	p := zzvMInt("probe", -(1 << 35), 1<<35)
	zzvAssert("content", zzAbsDense(s, p) == zzAbsDense(&pre, p)+zzvIteF64(p == i, c, 0))
}

func ZZ_C04_dense_add_L0() { zzC04DenseAdd(0) }
func ZZ_C04_dense_add_L1() { zzC04DenseAdd(1) }
func ZZ_C04_dense_add_L4() { zzC04DenseAdd(4) }
func ZZ_C04_dense_add_L8_T() { zzC04DenseAdd(8) }

func zzC04DenseMergeDense(Ls, Lo int) {
	zzvBound("dense merge", "receiver array length in {0,4}, argument in {0,1,3}, all cells symbolic, windows within 12 of each other")
	s := zzDenseState("s", Ls, []int{0, 2, 9}[zzvChoose("staleCells", 3)])
	o := zzDenseState("o", Lo, 0)
	zzvAssume(zzInvDense(s))
	zzvAssume(zzInvDense(o))
	if Ls > 0 && Lo > 0 {
		zzvAssume(zzvAnd(o.minIndex >= s.minIndex-zzDenseR(), o.maxIndex <= s.maxIndex+zzDenseR()))
	}
	preS, preO := zzSnapDense(s), zzSnapDense(o)
	zzvCover("pre-state")
	s.MergeWith(o)
	zzvAssert("inv-preserved", zzInvDense(s))
	zzvAssert("count-conserved", s.count == preS.count+preO.count)
	zzvAssert("argument-unchanged", zzSameDense(o, &preO))
	zzvAssert("receiver-and-argument-share-no-memory", zzvDisjoint(s, o))
	p := zzvMInt("probe", -(1 << 35), 1<<35)
	zzvAssert("content", zzAbsDense(s, p) == zzAbsDense(&preS, p)+zzAbsDense(&preO, p))
	// the receiver must not have adopted the argument's memory: a later addition to the receiver
	// leaves the argument as it was
	if Lo > 0 {
		i := o.minIndex + zzvMInt("later", -2, 2)
		zzvAssume(zzvAnd(i >= -(1<<31), i < 1<<31))
		s.AddWithCount(i, zzWPos("laterWeight"))
		zzvAssert("argument-unaffected-by-later-receiver-addition", zzSameDense(o, &preO))
	}
}

func ZZ_C04_dense_merge_dense_0_0() { zzC04DenseMergeDense(0, 0) }
func ZZ_C04_dense_merge_dense_0_3() { zzC04DenseMergeDense(0, 3) }
func ZZ_C04_dense_merge_dense_4_0() { zzC04DenseMergeDense(4, 0) }
func ZZ_C04_dense_merge_dense_4_1() { zzC04DenseMergeDense(4, 1) }
func ZZ_C04_dense_merge_dense_4_3() { zzC04DenseMergeDense(4, 3) }
func ZZ_C04_dense_merge_dense_8_4_T() { zzC04DenseMergeDense(8, 4) }

func zzC04DenseCopyClear(L int) {
	s := zzDenseState("s", L, []int{0, 2, 9}[zzvChoose("staleCells", 3)])
	zzvAssume(zzInvDense(s))
	pre := zzSnapDense(s)
	zzvCover("pre-state")
	cp := s.Copy().(*DenseStore)
	zzvAssert("copy-inv", zzInvDense(cp))
	zzvAssert("copy-equal", zzSameDense(cp, &pre))
	zzvAssert("original-unchanged-by-copy", zzSameDense(s, &pre))
	zzvAssert("copy-shares-no-memory-with-original", zzvDisjoint(s, cp))
	// independence: mutate one side, the other keeps its content
	i := zzIdx("i")
	c := zzWPos("c")
	if L > 0 {
		zzvAssume(zzvAnd(i >= s.minIndex-4, i <= s.maxIndex+4))
	}
	p := zzvMInt("probe", -(1 << 35), 1<<35)
	which := zzvChoose("mutate", 3)
	switch which {
	case 0:
		s.AddWithCount(i, c)
		zzvAssert("copy-independent-of-original", zzAbsDense(cp, p) == zzAbsDense(&pre, p))
		zzvAssert("copy-count-independent", cp.count == pre.count)
	case 1:
		cp.AddWithCount(i, c)
		zzvAssert("original-independent-of-copy", zzAbsDense(s, p) == zzAbsDense(&pre, p))
		zzvAssert("original-count-independent", s.count == pre.count)
	case 2:
		s.Clear()
		zzvAssert("clear-inv", zzInvDense(s))
		zzvAssert("clear-empty", zzvAnd(s.IsEmpty(), s.TotalCount() == 0))
		zzvAssert("clear-content-zero", zzAbsDense(s, p) == 0)
		zzvAssert("copy-independent-of-clear", zzAbsDense(cp, p) == zzAbsDense(&pre, p))
	}
}

func ZZ_C04_dense_copy_clear_L0() { zzC04DenseCopyClear(0) }
func ZZ_C04_dense_copy_clear_L4() { zzC04DenseCopyClear(4) }

func zzWeightFactor(k int) float64 { return []float64{0.25, 0.5, 1, 2, 3}[k] }

func zzC04DenseReweight(L int) {
	zzvBound("reweight factors", "w in {1/4, 1/2, 1, 2, 3} exactly, and every dyadic w <= 0 for the refusal case")
	s := zzDenseState("s", L, 0)
	zzvAssume(zzInvDense(s))
	pre := zzSnapDense(s)
	p := zzvMInt("probe", -(1 << 35), 1<<35)
	if zzvChoose("refuse", 2) == 1 {
		w := zzvDyadic("w", zzG, -zzWMax, 0)
		zzvCover("refusal")
		err := s.Reweight(w)
		zzvAssert("nonpositive-factor-refused", err != nil)
		zzvAssert("refused-unchanged", zzSameDense(s, &pre))
		return
	}
	w := zzWeightFactor(zzvChoose("w", 5))
	zzvCover("pre-state")
	err := s.Reweight(w)
	zzvAssert("reweight-ok", err == nil)
	zzvAssert("inv-preserved", zzInvDense(s))
	zzvAssert("count-scaled", s.count == w*pre.count)
	zzvAssert("content-scaled", zzAbsDense(s, p) == w*zzAbsDense(&pre, p))
}

func ZZ_C04_dense_reweight_L0() { zzC04DenseReweight(0) }
func ZZ_C04_dense_reweight_L4() { zzC04DenseReweight(4) }

// observers on an arbitrary valid state: every answer equals the specification on the abstract map
func zzC04DenseObservers(L int) {
	s := zzDenseState("s", L, []int{0, 2, 9}[zzvChoose("staleCells", 3)])
	zzvAssume(zzInvDense(s))
	pre := zzSnapDense(s)
	total := zzSumCells(pre.bins)
	zzvCover("pre-state")
	q := zzvMInt("probe", -(1 << 35), 1<<35)
	switch zzvChoose("observer", 6) {
	case 0:
		zzvAssert("total-count", s.TotalCount() == total)
		zzvAssert("is-empty", s.IsEmpty() == (total == 0))
	case 1:
		mn, err := s.MinIndex()
		mx, err2 := s.MaxIndex()
		if L == 0 {
			zzvAssert("min-max-error-when-empty", err != nil && err2 != nil)
		} else {
			zzvAssert("min-max-ok", err == nil && err2 == nil)
			zzvAssert("min-nonempty", zzAbsDense(&pre, mn) > 0)
			zzvAssert("max-nonempty", zzAbsDense(&pre, mx) > 0)
			zzvAssert("nothing-below-min", zzvImplies(q < mn, zzAbsDense(&pre, q) == 0))
			zzvAssert("nothing-above-max", zzvImplies(q > mx, zzAbsDense(&pre, q) == 0))
		}
	case 2:
		if L == 0 {
			return // KeyAtRank on an empty store is unspecified (sentinel)
		}
		rank := zzvDyadic("rank", zzG, -zzWMax, 8*zzWMax)
		r := s.KeyAtRank(rank)
		rk := zzvIteF64(rank < 0, 0, rank)
		zzvAssert("rank-first-exceeding", zzvImplies(rk < total, zzvAnd(zzSumBelowEq(&pre, r) > rk, zzSumBelowEq(&pre, r-1) <= rk)))
		zzvAssert("rank-clamped-to-max", zzvImplies(rk >= total, r == pre.maxIndex))
	case 3:
		// ForEach: every non-empty bin exactly once, in order, with its weight; stops when asked
		stopAfter := zzvChoose("stopAfter", 4) // 0 = never
		var idxs []int
		var ws []float64
		s.ForEach(func(index int, count float64) bool {
			idxs = append(idxs, index)
			ws = append(ws, count)
			return stopAfter != 0 && len(idxs) == stopAfter
		})
		sum := 0.0
		found := false
		for k := range idxs {
			zzvAssert("foreach-weight", zzvAnd(ws[k] > 0, ws[k] == zzAbsDense(&pre, idxs[k])))
			if k > 0 {
				zzvAssert("foreach-increasing", idxs[k] > idxs[k-1])
			}
			sum += ws[k]
			found = zzvOr(found, idxs[k] == q)
		}
		if stopAfter == 0 {
			zzvAssert("foreach-total", sum == total)
			zzvAssert("foreach-complete", zzvImplies(zzAbsDense(&pre, q) > 0, found))
		} else {
			zzvAssert("foreach-stops", len(idxs) <= stopAfter)
		}
	case 4:
		var idxs []int
		sum := 0.0
		found := false
		for b := range s.Bins() {
			zzvAssert("bins-weight", zzvAnd(b.count > 0, b.count == zzAbsDense(&pre, b.index)))
			if len(idxs) > 0 {
				zzvAssert("bins-increasing", b.index > idxs[len(idxs)-1])
			}
			idxs = append(idxs, b.index)
			sum += b.count
			found = zzvOr(found, b.index == q)
		}
		zzvAssert("bins-total", sum == total)
		zzvAssert("bins-complete", zzvImplies(zzAbsDense(&pre, q) > 0, found))
	case 5:
		// AddBin / Add are AddWithCount
		i := zzIdx("i")
		if L > 0 {
			zzvAssume(zzvAnd(i >= s.minIndex-3, i <= s.maxIndex+3))
		}
		if zzvChoose("addbin", 2) == 1 {
			c := zzW("c")
			s.AddBin(Bin{index: i, count: c})
			zzvAssert("addbin-content", zzAbsDense(s, q) == zzAbsDense(&pre, q)+zzvIteF64(q == i, c, 0))
		} else {
			s.Add(i)
			zzvAssert("add-content", zzAbsDense(s, q) == zzAbsDense(&pre, q)+zzvIteF64(q == i, 1, 0))
		}
		zzvAssert("inv-preserved", zzInvDense(s))
		return
	}
	zzvAssert("observer-pure", zzSameDense(s, &pre))
}

func ZZ_C04_dense_observers_L0() { zzC04DenseObservers(0) }
func ZZ_C04_dense_observers_L4() { zzC04DenseObservers(4) }
func ZZ_C04_dense_observers_L8_T() { zzC04DenseObservers(8) }

// A realistic array (>= 64 cells, as the real getNewLength allocates) with the window at an
// enumerated position inside and the new index at an enumerated distance: exercises small shifts,
// growth by a few cells and the "fits in the array" branch. Base index and weights stay symbolic.
func zzC04DenseAddBig(L int, starts []int, widths []int, dists []int) {
	zzvBound("dense realistic array", "array of 66 cells (64 is the smallest the real code allocates), window start/width and distance of the new index enumerated from the listed sets; index base symbolic in int32; weights symbolic")
	a := starts[zzvChoose("windowStart", len(starts))]
	W := widths[zzvChoose("windowWidth", len(widths))]
	if a+W > L {
		return
	}
	base := zzvMInt("base", -(1 << 31), 1<<31)
	bins := make([]float64, L)
	sum := 0.0
	for k := 0; k < W; k++ {
		if k == 0 || k == W-1 {
			bins[a+k] = zzWPos("cell")
		} else {
			bins[a+k] = zzW("cell")
		}
		sum += bins[a+k]
	}
	s := &DenseStore{bins: bins, count: sum, offset: base, minIndex: base + a, maxIndex: base + a + W - 1}
	zzvAssume(zzInvDense(s))
	pre := zzSnapDense(s)
	d := dists[zzvChoose("distance", len(dists))]
	var i int
	if zzvChoose("side", 2) == 0 {
		i = s.minIndex - d
	} else {
		i = s.maxIndex + d
	}
	zzvAssume(zzvAnd(i >= -(1<<31), i < 1<<31))
	c := zzWPos("c")
	zzvCover("pre-state")
	s.AddWithCount(i, c)
	zzvAssert("inv-preserved", zzInvDense(s))
	zzvAssert("count-conserved", s.count == pre.count+c)
	p := base + zzvMInt("probeRel", -200, 300)
	zzvAssert("content", zzAbsDense(s, p) == zzAbsDense(&pre, p)+zzvIteF64(p == i, c, 0))
}

func ZZ_C04_dense_add_big_Q() {
	zzC04DenseAddBig(66, []int{0, 1, 31, 60, 63, 65}, []int{1, 3, 6}, []int{1, 2, 3, 4, 33, 70})
}
func ZZ_C04_dense_add_big_T() {
	starts := make([]int, 66)
	for k := range starts {
		starts[k] = k
	}
	dists := make([]int, 80)
	for k := range dists {
		dists[k] = k + 1
	}
	zzC04DenseAddBig(66, starts, []int{1, 2, 3, 6, 40, 66}, dists)
}
