//go:build verif

package store

// Short operation HISTORIES from a freshly constructed store (C04 / C05 / C14 / C15): unlike the
// one-step harnesses, which start from a state the harness builds from the declared fields, a history
// goes through the real constructors and operations only, so any additional internal state
// (caches, flags) and any aliasing introduced along the way is exercised. Indexes are
// base + enumerated offset with a symbolic page-aligned base; weights are symbolic.
// After every step sequence all observers are compared with the ghost multiset.

var zzHistDeltas = []int{0, 33}

type zzGhost struct {
	idx []int
	w   []float64
}

func (g *zzGhost) clone() *zzGhost {
	return &zzGhost{idx: append([]int(nil), g.idx...), w: append([]float64(nil), g.w...)}
}
func (g *zzGhost) add(i int, w float64) { g.idx = append(g.idx, i); g.w = append(g.w, w) }
func (g *zzGhost) at(p int) float64 {
	v := 0.0
	for j := range g.idx {
		v += zzvIteF64(g.idx[j] == p, g.w[j], 0)
	}
	return v
}
func (g *zzGhost) total() float64 {
	v := 0.0
	for _, w := range g.w {
		v += w
	}
	return v
}
func (g *zzGhost) sumBelowEq(x int) float64 {
	v := 0.0
	for j := range g.idx {
		v += zzvIteF64(g.idx[j] <= x, g.w[j], 0)
	}
	return v
}
func (g *zzGhost) scale(f float64) {
	for j := range g.w {
		g.w[j] *= f
	}
}

// folded view for the collapsing kinds (N = 3): fold everything beyond the edge into the edge bin
type zzView struct {
	g    *zzGhost
	kind int // 3 lowest, 4 highest, else exact
}

func (v zzView) edge() (int, bool) {
	if len(v.g.idx) == 0 {
		return 0, false
	}
	ext := v.g.idx[0]
	for _, i := range v.g.idx[1:] {
		if v.kind == 3 {
			ext = zzMaxInt(ext, i)
		} else {
			ext = zzMinInt(ext, i)
		}
	}
	if v.kind == 3 {
		return ext - 2, true
	}
	return ext + 2, true
}
func (v zzView) at(p int) float64 {
	if v.kind != 3 && v.kind != 4 {
		return v.g.at(p)
	}
	e, ok := v.edge()
	if !ok {
		return 0
	}
	if v.kind == 3 {
		return zzvIteF64(p < e, 0, zzvIteF64(p == e, v.g.sumBelowEq(e), v.g.at(p)))
	}
	return zzvIteF64(p > e, 0, zzvIteF64(p == e, v.g.total()-v.g.sumBelowEq(e-1), v.g.at(p)))
}
func (v zzView) sumBelowEq(x int) float64 {
	if v.kind != 3 && v.kind != 4 {
		return v.g.sumBelowEq(x)
	}
	e, ok := v.edge()
	if !ok {
		return 0
	}
	if v.kind == 3 {
		return zzvIteF64(x < e, 0, v.g.sumBelowEq(x))
	}
	return zzvIteF64(x >= e, v.g.total(), v.g.sumBelowEq(x))
}

// zzObserveAll: every observer of the store against the (folded) ghost
func zzObserveAll(s Store, g *zzGhost, kind int, tag string) {
	v := zzView{g, kind}
	total := g.total()
	zzvAssert(tag+"/total-count", s.TotalCount() == total)
	zzvAssert(tag+"/is-empty", s.IsEmpty() == (len(g.idx) == 0))
	mn, e1 := s.MinIndex()
	mx, e2 := s.MaxIndex()
	if e1 == nil && e2 == nil {
		mn, mx = zzvNarrow(mn, -(1<<31), 1<<31), zzvNarrow(mx, -(1<<31), 1<<31)
	}
	zzvAssert(tag+"/min-max-error-iff-empty", (e1 != nil) == (len(g.idx) == 0) && (e2 != nil) == (len(g.idx) == 0))
	q := zzvMInt("probe", -(1 << 35), 1<<35)
	if len(g.idx) > 0 {
		zzvAssert(tag+"/min-index", zzvAnd(v.at(mn) > 0, zzvImplies(q < mn, v.at(q) == 0)))
		zzvAssert(tag+"/max-index", zzvAnd(v.at(mx) > 0, zzvImplies(q > mx, v.at(q) == 0)))
		rank := zzvDyadic("rank", zzG, -zzWMax, 64*zzWMax)
		r := zzvNarrow(s.KeyAtRank(rank), -(1<<31), 1<<31)
		rk := zzvIteF64(rank < 0, 0, rank)
		zzvAssert(tag+"/key-at-rank", zzvImplies(rk < total, zzvAnd(v.sumBelowEq(r) > rk, v.sumBelowEq(r-1) <= rk)))
		zzvAssert(tag+"/key-at-rank-clamped", zzvImplies(rk >= total, r == mx))
	}
	// ordered bin stream: each non-empty bin once, increasing, right weight, complete
	sum := 0.0
	found := false
	last, first := 0, true
	for b := range s.Bins() {
		zzvAssert(tag+"/bins-weight", zzvAnd(b.count > 0, b.count == v.at(b.index)))
		if !first {
			zzvAssert(tag+"/bins-increasing", b.index > last)
		}
		last, first = b.index, false
		sum += b.count
		found = zzvOr(found, b.index == q)
	}
	zzvAssert(tag+"/bins-total", sum == total)
	zzvAssert(tag+"/bins-complete", zzvImplies(v.at(q) > 0, found))
	// unordered iteration
	sum2 := 0.0
	s.ForEach(func(i int, c float64) bool {
		zzvAssert(tag+"/foreach-weight", zzvAnd(c > 0, c == v.at(i)))
		sum2 += c
		return false
	})
	zzvAssert(tag+"/foreach-total", sum2 == total)
	zzvAssert(tag+"/inv", ZZInv(s))
}

func zzHistory(kind, steps int) {
	zzvBound("histories", "from a new store: sequences of 3 operations over {unit add, weighted add, full observation, copy (then both lines continue), clear, merge of a freshly built dense / paginated store, reweight by 2, switch to the copy}, indexes base+{0,33} (merged stores: base+{-2,33,33}) with base = 32*pageBase+{0,30} symbolic, weights 1 / 2.5 / 0.5, rank of the rank query symbolic; after the sequence every observer of the store (and of the copy, if any) is compared with the ghost multiset (folded at the edge for the N=3 collapsing kinds)")
	zzvMapOrders(2) // pinned insertion order: order independence of the sparse store is the one-step harnesses' subject
	base := 32*zzvMInt("pageBase", -(1<<25), 1<<25) + []int{0, 30}[zzvChoose("alignment", 2)]
	s := zzNewKind(kind)
	g := &zzGhost{}
	var other Store
	var og *zzGhost
	for step := 0; step < steps; step++ {
		switch zzvChoose("op", 8) {
		case 0:
			i := base + zzHistDeltas[zzvChoose("delta", len(zzHistDeltas))]
			s.Add(i)
			g.add(i, 1)
		case 1:
			i := base + zzHistDeltas[zzvChoose("delta", len(zzHistDeltas))]
			w := 2.5
			s.AddWithCount(i, w)
			g.add(i, w)
		case 2:
			zzObserveAll(s, g, kind, "mid")
		case 3:
			if other != nil {
				return
			}
			other = s.Copy()
			og = g.clone()
			zzvAssert("copy-shares-no-memory-with-original", zzvDisjoint(s, other))
		case 4:
			s.Clear()
			g = &zzGhost{}
		case 5:
			ok := []int{0, 2}[zzvChoose("argKind", 2)]
			o := zzNewKind(ok)
			pg := &zzGhost{}
			for _, d := range []int{-2, 33, 33} {
				w := 1.0
				if d == -2 {
					w = 0.5
				}
				o.AddWithCount(base+d, w)
				pg.add(base+d, w)
			}
			s.MergeWith(o)
			for j := range pg.idx {
				g.add(pg.idx[j], pg.w[j])
			}
			zzvAssert("merge-argument-unchanged", zzvAnd(o.TotalCount() == pg.total(), ZZInv(o)))
			zzvAssert("receiver-and-argument-share-no-memory", zzvDisjoint(s, o))
		case 6:
			if s.Reweight(2) != nil {
				zzvAssert("reweight-ok", false)
			}
			g.scale(2)
		case 7:
			if other == nil {
				return
			}
			s, other = other, s
			g, og = og, g
		}
	}
	zzvCover("history")
	zzObserveAll(s, g, kind, "end")
	if other != nil {
		zzObserveAll(other, og, kind, "other-line")
		zzvAssert("lines-share-no-memory-at-the-end", zzvDisjoint(s, other))
	}
}

func ZZ_C04_history_dense()  { zzHistory(0, 3) }
func ZZ_C04_history_sparse() { zzHistory(1, 3) }
func ZZ_C04_history_pag()    { zzHistory(2, 3) }
func ZZ_C05_history_lowest() { zzHistory(3, 3) }
func ZZ_C05_history_highest() { zzHistory(4, 3) }
func ZZ_C04_history_dense_4_T()  { zzHistory(0, 4) }
func ZZ_C04_history_sparse_4_T() { zzHistory(1, 4) }
func ZZ_C04_history_pag_4_T()    { zzHistory(2, 4) }
func ZZ_C05_history_lowest_4_T() { zzHistory(3, 4) }
func ZZ_C05_history_highest_4_T() { zzHistory(4, 4) }

// round 3: read - clear - refill with AS MANY distinct bins - read (a cache keyed by the number of bins, or
// anything else a read leaves behind, must not survive Clear); all store kinds
func zzReadClearRefill(kind int) {
	zzvBound("read-clear-refill", "from a new store: 1-2 unit/weighted additions at a symbolic page-aligned base, full observation, Clear, the same number of additions at other indexes, full observation")
	zzvMapOrders(2)
	base := 32*zzvMInt("pageBase", -(1<<25), 1<<25) + []int{0, 30}[zzvChoose("alignment", 2)]
	s := zzNewKind(kind)
	g := &zzGhost{}
	n := 1 + zzvChoose("bins", 2)
	first := []int{0, 5}
	second := [][]int{{7, 2}, {-3, 33}}[zzvChoose("refill", 2)]
	for k := 0; k < n; k++ {
		s.AddWithCount(base+first[k], []float64{1, 2.5}[k])
		g.add(base+first[k], []float64{1, 2.5}[k])
	}
	zzObserveAll(s, g, kind, "before-clear")
	s.Clear()
	g = &zzGhost{}
	if zzvChoose("observeCleared", 2) == 1 {
		zzObserveAll(s, g, kind, "cleared")
	}
	for k := 0; k < n; k++ {
		s.AddWithCount(base+second[k], []float64{2.5, 1}[k])
		g.add(base+second[k], []float64{2.5, 1}[k])
	}
	zzvCover("history")
	zzObserveAll(s, g, kind, "end")
}
func ZZ_C14_read_clear_refill_sparse() { zzReadClearRefill(1) }
func ZZ_C14_read_clear_refill_pag()    { zzReadClearRefill(2) }
func ZZ_C15_read_clear_refill_sparse() { zzReadClearRefill(1) }
func ZZ_C15_read_clear_refill_dense()  { zzReadClearRefill(0) }
func ZZ_C15_read_clear_refill_pag()    { zzReadClearRefill(2) }
func ZZ_C15_read_clear_refill_lowest() { zzReadClearRefill(3) }
func ZZ_C04_read_clear_refill_sparse() { zzReadClearRefill(1) }
