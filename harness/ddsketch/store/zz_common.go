//go:build verif

package store

import "math"

// Shared state constructors, representation invariants and abstraction functions for the P2
// ("one step from an arbitrary valid state") harnesses. Weights are dyadic fixed point (F2):
// multiples of 2^-zzG, so that "no weight is lost" is an exact statement.

const (
	zzG    = 4       // weights are multiples of 1/16
	zzWMax = 1 << 20 // |weight| <= 2^20 units = 65536.0
)

func zzW(name string) float64    { return zzvDyadic(name, zzG, 0, zzWMax) }        // weight >= 0
func zzWPos(name string) float64 { return zzvDyadic(name, zzG, 1, zzWMax) }        // weight > 0
func zzIdx(name string) int      { return zzvMInt(name, math.MinInt32, math.MaxInt32) } // int32-range index (mathematical integer)

// ---------- dense family ----------

// zzDenseRaw builds a DenseStore with an L-cell window array (all cells symbolic), `extra` stale
// cells between len and cap (what Clear and growth leave behind), and symbolic scalar fields.
func zzDenseRaw(tag string, L, extra int) DenseStore {
	backing := make([]float64, L+extra)
	for i := range backing {
		backing[i] = zzW(tag + ".cell")
	}
	return DenseStore{
		bins:     backing[:L],
		count:    zzvDyadic(tag+".count", zzG, 0, zzWMax*1024),
		offset:   zzvMInt(tag+".offset", -(1 << 33), 1<<33),
		minIndex: zzvMInt(tag+".min", -(1 << 34), 1<<34),
		maxIndex: zzvMInt(tag+".max", -(1 << 34), 1<<34),
	}
}

func zzSumCells(bins []float64) float64 {
	sum := 0.0
	for _, c := range bins {
		sum += c
	}
	return sum
}

// zzInvDense: representation invariant of DenseStore (also the embedded part of collapsing stores).
// Empty: len 0 (nil or truncated by Clear, any capacity and stale content), sentinels, count 0.
// Non-empty: offset <= min <= max < offset+len, indexes in int32 range, cells >= 0, zero outside
// [min,max], cells at min and max positive, count = sum of cells.
func zzInvDense(s *DenseStore) bool {
	L := len(s.bins)
	if L == 0 {
		return zzvAnd(s.count == 0, zzvAnd(s.minIndex == math.MaxInt32, s.maxIndex == math.MinInt32))
	}
	ok := zzvAnd(s.count > 0, zzvAnd(s.offset <= s.minIndex, zzvAnd(s.minIndex <= s.maxIndex, s.maxIndex < s.offset+L)))
	ok = zzvAnd(ok, zzvAnd(s.minIndex >= math.MinInt32, s.maxIndex <= math.MaxInt32))
	ok = zzvAnd(ok, zzvAnd(s.offset >= -(1<<33), s.offset <= 1<<33))
	sum := 0.0
	for k, c := range s.bins {
		idx := s.offset + k
		outside := zzvOr(idx < s.minIndex, idx > s.maxIndex)
		ok = zzvAnd(ok, c >= 0)
		ok = zzvAnd(ok, zzvImplies(outside, c == 0))
		ok = zzvAnd(ok, zzvImplies(zzvOr(idx == s.minIndex, idx == s.maxIndex), c > 0))
		sum += c
	}
	return zzvAnd(ok, s.count == sum)
}

// zzAbsDense: weight the store holds at index p (the abstraction function), without indexing.
func zzAbsDense(s *DenseStore, p int) float64 {
	v := 0.0
	for k, c := range s.bins {
		v = zzvIteF64(p == s.offset+k, c, v)
	}
	return v
}

// zzSumBelowEq: total weight held at indexes <= edge ; zzSumAboveEq: at indexes >= edge.
func zzSumBelowEq(s *DenseStore, edge int) float64 {
	v := 0.0
	for k, c := range s.bins {
		v += zzvIteF64(s.offset+k <= edge, c, 0)
	}
	return v
}
func zzSumAboveEq(s *DenseStore, edge int) float64 {
	v := 0.0
	for k, c := range s.bins {
		v += zzvIteF64(s.offset+k >= edge, c, 0)
	}
	return v
}

// zzSnapDense: ghost copy (deep) of the fields.
func zzSnapDense(s *DenseStore) DenseStore {
	c := *s
	c.bins = append([]float64(nil), s.bins...)
	return c
}

func zzMaxInt(a, b int) int { return zzvIteInt(a > b, a, b) }
func zzMinInt(a, b int) int { return zzvIteInt(a < b, a, b) }
