//go:build verif

package store

import (
	enc "github.com/DataDog/sketches-go/ddsketch/encoding"
)

// Histories that interleave additions, reads, copies, clears and DECODING of bin blocks into the same
// store (C04/C06/C14/C15). Index bases are enumerated (the blocks are byte strings), so these runs are
// interpreter-executed enumeration of short histories rather than solver-decided; the only symbolic
// input is the rank of the rank query.

func zzEncodeDeltas(idx []int) []byte {
	b := []byte{}
	enc.EncodeUvarint64(&b, uint64(len(idx)))
	prev := 0
	for _, i := range idx {
		enc.EncodeVarint64(&b, int64(i-prev))
		prev = i
	}
	return b
}

func zzEncodeContiguous(start, stride int, counts []float64) []byte {
	b := []byte{}
	enc.EncodeUvarint64(&b, uint64(len(counts)))
	enc.EncodeVarint64(&b, int64(start))
	enc.EncodeVarint64(&b, int64(stride))
	for _, c := range counts {
		enc.EncodeVarfloat64(&b, c)
	}
	return b
}

func zzDecodeHistory(kind, steps int) { zzDecodeHistoryOps(kind, steps, []int{0, 1, 2, 3, 4, 5, 6, 7}) }

// reduced alphabets for the property-specific wrappers
var zzReadDecodeOps = []int{0, 2, 5, 6}    // unit add, observation, decode deltas, decode contiguous
var zzCopyDecodeOps = []int{0, 2, 3, 5, 7} // + copy and switching lines

func zzDecodeHistoryOps(kind, steps int, ops []int) {
	zzvBound("decode histories", "from a new store: sequences of 3 operations over {unit add, weighted add, observation, copy, clear, decode of an index-delta block, decode of a contiguous block (aligned full page or short strided), switch to the copy}; index base enumerated from {31, -40}")
	zzvMapOrders(2)
	base := []int{31, -40}[zzvChoose("base", 2)]
	s := zzNewKind(kind)
	g := &zzGhost{}
	var other Store
	var og *zzGhost
	for step := 0; step < steps; step++ {
		switch ops[zzvChoose("op", len(ops))] {
		case 0:
			i := base + []int{5, 33}[zzvChoose("delta", 2)]
			s.Add(i)
			g.add(i, 1)
		case 1:
			i := base + 33
			s.AddWithCount(i, 2.5)
			g.add(i, 2.5)
		case 2:
			zzObserveAll(s, g, kind, "mid")
		case 3:
			if other != nil {
				return
			}
			other = s.Copy()
			og = g.clone()
			zzvAssert("copy-shares-no-memory-with-original", zzvDisjoint(s, other))
		case 4:
			s.Clear()
			g = &zzGhost{}
		case 5:
			idx := []int{base + 3, base - 7, base + 3}
			b := zzEncodeDeltas(idx)
			zzvAssert("decode-ok", s.DecodeAndMergeWith(&b, enc.BinEncodingIndexDeltas) == nil && len(b) == 0)
			for _, i := range idx {
				g.add(i, 1)
			}
		case 6:
			var b []byte
			if zzvChoose("contiguousShape", 2) == 0 {
				// one aligned full page, stride 1 (the shape the paginated encoder emits)
				start := ((base >> 5) + 1) << 5
				counts := make([]float64, 32)
				counts[0], counts[7], counts[31] = 2, 1, 0.5
				b = zzEncodeContiguous(start, 1, counts)
				g.add(start, 2)
				g.add(start+7, 1)
				g.add(start+31, 0.5)
			} else {
				b = zzEncodeContiguous(base+1, -2, []float64{1, 3})
				g.add(base+1, 1)
				g.add(base-1, 3)
			}
			zzvAssert("decode-ok", s.DecodeAndMergeWith(&b, enc.BinEncodingContiguousCounts) == nil && len(b) == 0)
		case 7:
			if other == nil {
				return
			}
			s, other = other, s
			g, og = og, g
		}
	}
	zzvCover("history")
	zzObserveAll(s, g, kind, "end")
	if other != nil {
		zzObserveAll(other, og, kind, "other-line")
	}
}

func ZZ_C04_history_decode_pag()    { zzDecodeHistory(2, 3) }

// decoding into a store that was read or copied before (C06: decode = merge; C07: every well-formed
// block adds to what is there; C14: reads and copies do not change what later operations do)
func ZZ_C06_decode_after_reads_pag()    { zzDecodeHistoryOps(2, 3, zzReadDecodeOps) }
func ZZ_C06_decode_after_reads_dense()  { zzDecodeHistoryOps(0, 3, zzReadDecodeOps) }
func ZZ_C07_repeated_blocks_pag()       { zzDecodeHistoryOps(2, 3, zzReadDecodeOps) }
func ZZ_C07_repeated_blocks_sparse()    { zzDecodeHistoryOps(1, 3, zzReadDecodeOps) }
func ZZ_C14_reads_then_decode_pag()     { zzDecodeHistoryOps(2, 3, zzCopyDecodeOps) }
func ZZ_C14_reads_then_decode_sparse()  { zzDecodeHistoryOps(1, 3, zzCopyDecodeOps) }
func ZZ_C04_history_decode_dense()  { zzDecodeHistory(0, 3) }
func ZZ_C04_history_decode_sparse() { zzDecodeHistory(1, 3) }
func ZZ_C04_history_decode_pag_4_T() { zzDecodeHistory(2, 4) }

// C02 (round 2): decoding-and-merging into a store that has been read since its last addition
func ZZ_C02_decode_and_merge_after_reads_pag() { zzDecodeHistoryOps(2, 3, zzReadDecodeOps) }
