//go:build verif

package store

// C05 — collapsing stores: bounded, weight-conserving, folded content exact.

func zzLowestState(tag string, N, L, extra int) *CollapsingLowestDenseStore {
	s := &CollapsingLowestDenseStore{DenseStore: zzDenseRaw(tag, L, extra), maxNumBins: N, isCollapsed: zzvBool(tag + ".collapsed")}
	return s
}

// invariant: dense invariant + len in {0,N} (for N <= 64 the real getNewLength allocates exactly N
// cells on the first addition) + collapsed => window is full and starts at the array origin.
func zzInvLowest(s *CollapsingLowestDenseStore) bool {
	L := len(s.bins)
	ok := zzInvDense(&s.DenseStore)
	if L == 0 {
		return zzvAnd(ok, !s.isCollapsed)
	}
	if L != s.maxNumBins {
		return false
	}
	return zzvAnd(ok, zzvImplies(s.isCollapsed, zzvAnd(s.offset == s.minIndex, s.maxIndex-s.minIndex+1 == L)))
}

// fold specification at probe p for content (pre ⊎ {i: c}) with bin limit N
func zzFoldLowestSpec(pre *DenseStore, preEmpty bool, N int, i int, c float64, p int) float64 {
	newMax := i
	if !preEmpty {
		newMax = zzMaxInt(pre.maxIndex, i)
	}
	edge := newMax - N + 1
	at := zzAbsDense(pre, p) + zzvIteF64(p == i, c, 0)
	below := zzSumBelowEq(pre, edge) + zzvIteF64(i <= edge, c, 0)
	return zzvIteF64(p < edge, 0, zzvIteF64(p == edge, below, at))
}

func zzC05LowestAdd(N int) {
	zzvBound("maxNumBins N", "N in {1,2,3,4} (quick; 8 and 16 thorough), array fully symbolic; index base unconstrained in int32, new index within the concretisation cap of the window")
	emptyPre := zzvChoose("preEmpty", 2) == 1
	L := N
	if emptyPre {
		L = 0
	}
	s := zzLowestState("s", N, L, zzvChoose("staleCells", 2)*N)
	zzvAssume(zzInvLowest(s))
	pre := zzSnapDense(&s.DenseStore)
	i := zzIdx("i")
	c := zzWPos("c")
	// distance of the new index from the current window is bounded (getNewLength is concretised)
	if !emptyPre {
		zzvAssume(zzvAnd(i >= s.minIndex-24, i <= s.maxIndex+24))
	}
	zzvCover("pre-state")
	s.AddWithCount(i, c)
	zzvAssert("inv-preserved", zzInvLowest(s))
	zzvAssert("len<=N", len(s.bins) <= N)
	zzvAssert("span<=N", s.maxIndex-s.minIndex+1 <= N)
	zzvAssert("count-conserved", s.count == pre.count+c)
	p := zzvMInt("probe", -(1 << 35), 1<<35)
	zzvAssert("folded-content", zzAbsDense(&s.DenseStore, p) == zzFoldLowestSpec(&pre, emptyPre, N, i, c, p))
}

func ZZ_C05_lowest_add_N1() { zzC05LowestAdd(1) }
func ZZ_C05_lowest_add_N2() { zzC05LowestAdd(2) }
func ZZ_C05_lowest_add_N3() { zzC05LowestAdd(3) }
func ZZ_C05_lowest_add_N4() { zzC05LowestAdd(4) }
func ZZ_C05_lowest_add_N8_T()  { zzC05LowestAdd(8) }
func ZZ_C05_lowest_add_N16_T() { zzC05LowestAdd(16) }

// ---------- highest-collapsing ----------

func zzHighestState(tag string, N, L, extra int) *CollapsingHighestDenseStore {
	return &CollapsingHighestDenseStore{DenseStore: zzDenseRaw(tag, L, extra), maxNumBins: N, isCollapsed: zzvBool(tag + ".collapsed")}
}

func zzInvHighest(s *CollapsingHighestDenseStore) bool {
	L := len(s.bins)
	ok := zzInvDense(&s.DenseStore)
	if L == 0 {
		return zzvAnd(ok, !s.isCollapsed)
	}
	if L != s.maxNumBins {
		return false
	}
	return zzvAnd(ok, zzvImplies(s.isCollapsed, zzvAnd(s.offset+L-1 == s.maxIndex, s.maxIndex-s.minIndex+1 == L)))
}

func zzFoldHighestSpec(pre *DenseStore, preEmpty bool, N int, i int, c float64, p int) float64 {
	newMin := i
	if !preEmpty {
		newMin = zzMinInt(pre.minIndex, i)
	}
	edge := newMin + N - 1
	at := zzAbsDense(pre, p) + zzvIteF64(p == i, c, 0)
	above := zzSumAboveEq(pre, edge) + zzvIteF64(i >= edge, c, 0)
	return zzvIteF64(p > edge, 0, zzvIteF64(p == edge, above, at))
}

func zzC05HighestAdd(N int) {
	zzvBound("maxNumBins N", "N in {1,2,3,4} (quick; 8 and 16 thorough), array fully symbolic; index base unconstrained in int32, new index within 24 of the window")
	emptyPre := zzvChoose("preEmpty", 2) == 1
	L := N
	if emptyPre {
		L = 0
	}
	s := zzHighestState("s", N, L, zzvChoose("staleCells", 2)*N)
	zzvAssume(zzInvHighest(s))
	pre := zzSnapDense(&s.DenseStore)
	i := zzIdx("i")
	c := zzWPos("c")
	if !emptyPre {
		zzvAssume(zzvAnd(i >= s.minIndex-24, i <= s.maxIndex+24))
	}
	zzvCover("pre-state")
	s.AddWithCount(i, c)
	zzvAssert("inv-preserved", zzInvHighest(s))
	zzvAssert("len<=N", len(s.bins) <= N)
	zzvAssert("span<=N", s.maxIndex-s.minIndex+1 <= N)
	zzvAssert("count-conserved", s.count == pre.count+c)
	p := zzvMInt("probe", -(1 << 35), 1<<35)
	zzvAssert("folded-content", zzAbsDense(&s.DenseStore, p) == zzFoldHighestSpec(&pre, emptyPre, N, i, c, p))
}

func ZZ_C05_highest_add_N1() { zzC05HighestAdd(1) }
func ZZ_C05_highest_add_N2() { zzC05HighestAdd(2) }
func ZZ_C05_highest_add_N3() { zzC05HighestAdd(3) }
func ZZ_C05_highest_add_N4() { zzC05HighestAdd(4) }
func ZZ_C05_highest_add_N8_T()  { zzC05HighestAdd(8) }
func ZZ_C05_highest_add_N16_T() { zzC05HighestAdd(16) }

// ---------- same-kind merges: every pair (N_receiver, N_argument) ----------

func zzSameDense(a *DenseStore, b *DenseStore) bool {
	ok := zzvAnd(a.count == b.count, zzvAnd(a.offset == b.offset, zzvAnd(a.minIndex == b.minIndex, a.maxIndex == b.maxIndex)))
	if len(a.bins) != len(b.bins) {
		return false
	}
	for k := range a.bins {
		ok = zzvAnd(ok, a.bins[k] == b.bins[k])
	}
	return ok
}

func zzC05LowestMerge(Nr, Na int) {
	zzvBound("bin limits", "receiver N and argument N each in {1,2,3} (quick; pairs up to (6,3),(2,6),(4,4) thorough); receiver empty/cleared or full-array state; argument non-empty or empty; windows within 12 of each other")
	emptyR := zzvChoose("receiverEmpty", 2) == 1
	emptyA := zzvChoose("argumentEmpty", 2) == 1
	Lr, La := Nr, Na
	if emptyR {
		Lr = 0
	}
	if emptyA {
		La = 0
	}
	s := zzLowestState("s", Nr, Lr, []int{0, Nr, 7}[zzvChoose("staleCells", 3)])
	o := zzLowestState("o", Na, La, 0)
	zzvAssume(zzInvLowest(s))
	zzvAssume(zzInvLowest(o))
	if !emptyR && !emptyA {
		zzvAssume(zzvAnd(o.minIndex >= s.minIndex-12, o.maxIndex <= s.maxIndex+12))
	}
	preS := zzSnapDense(&s.DenseStore)
	preO := zzSnapDense(&o.DenseStore)
	if emptyR && !emptyA {
		// known finding C05-merge-wider-into-empty: argument spans more than Nr indexes
		if o.maxIndex-o.minIndex+1 > Nr {
			zzvKnown("C05-lowest-merge-wider-into-empty")
		}
	}
	zzvCover("pre-state")
	s.MergeWith(o)
	zzvAssert("inv-preserved", zzInvLowest(s))
	zzvAssert("len<=N", len(s.bins) <= Nr)
	zzvAssert("span<=N", emptyR && emptyA || s.maxIndex-s.minIndex+1 <= Nr)
	zzvAssert("count-conserved", s.count == preS.count+preO.count)
	zzvAssert("argument-unchanged", zzvAnd(zzSameDense(&o.DenseStore, &preO), zzvAnd(o.maxNumBins == Na, len(o.bins) == La)))
	zzvAssert("receiver-and-argument-share-no-memory", zzvDisjoint(s, o))
	p := zzvMInt("probe", -(1 << 35), 1<<35)
	// specification: fold_N(alpha_s + alpha_o), edge from the joint maximum
	var spec float64
	switch {
	case emptyA:
		spec = zzAbsDense(&preS, p)
	default:
		newMax := preO.maxIndex
		if !emptyR {
			newMax = zzMaxInt(preS.maxIndex, preO.maxIndex)
		}
		edge := newMax - Nr + 1
		at := zzAbsDense(&preS, p) + zzAbsDense(&preO, p)
		below := zzSumBelowEq(&preS, edge) + zzSumBelowEq(&preO, edge)
		spec = zzvIteF64(p < edge, 0, zzvIteF64(p == edge, below, at))
	}
	zzvAssert("folded-content", zzAbsDense(&s.DenseStore, p) == spec)
}

func ZZ_C05_lowest_merge_1_1() { zzC05LowestMerge(1, 1) }
func ZZ_C05_lowest_merge_1_3() { zzC05LowestMerge(1, 3) }
func ZZ_C05_lowest_merge_2_2() { zzC05LowestMerge(2, 2) }
func ZZ_C05_lowest_merge_2_3() { zzC05LowestMerge(2, 3) }
func ZZ_C05_lowest_merge_3_1() { zzC05LowestMerge(3, 1) }
func ZZ_C05_lowest_merge_3_2() { zzC05LowestMerge(3, 2) }
func ZZ_C05_lowest_merge_3_3() { zzC05LowestMerge(3, 3) }
func ZZ_C05_lowest_merge_4_4_T() { zzC05LowestMerge(4, 4) }
func ZZ_C05_lowest_merge_6_3_T() { zzC05LowestMerge(6, 3) }
func ZZ_C05_lowest_merge_2_6_T() { zzC05LowestMerge(2, 6) }

func zzC05HighestMerge(Nr, Na int) {
	zzvBound("bin limits", "receiver N and argument N each in {1,2,3} (quick; pairs up to (6,3),(2,6),(4,4) thorough); receiver empty/cleared or full-array state; argument non-empty or empty; windows within 12 of each other")
	emptyR := zzvChoose("receiverEmpty", 2) == 1
	emptyA := zzvChoose("argumentEmpty", 2) == 1
	Lr, La := Nr, Na
	if emptyR {
		Lr = 0
	}
	if emptyA {
		La = 0
	}
	s := zzHighestState("s", Nr, Lr, []int{0, Nr, 7}[zzvChoose("staleCells", 3)])
	o := zzHighestState("o", Na, La, 0)
	zzvAssume(zzInvHighest(s))
	zzvAssume(zzInvHighest(o))
	if !emptyR && !emptyA {
		zzvAssume(zzvAnd(o.minIndex >= s.minIndex-12, o.maxIndex <= s.maxIndex+12))
	}
	preS := zzSnapDense(&s.DenseStore)
	preO := zzSnapDense(&o.DenseStore)
	if emptyR && !emptyA {
		if o.maxIndex-o.minIndex+1 > Nr {
			zzvKnown("C05-highest-merge-wider-into-empty")
		}
	}
	zzvCover("pre-state")
	s.MergeWith(o)
	zzvAssert("inv-preserved", zzInvHighest(s))
	zzvAssert("len<=N", len(s.bins) <= Nr)
	zzvAssert("span<=N", emptyR && emptyA || s.maxIndex-s.minIndex+1 <= Nr)
	zzvAssert("count-conserved", s.count == preS.count+preO.count)
	zzvAssert("argument-unchanged", zzvAnd(zzSameDense(&o.DenseStore, &preO), zzvAnd(o.maxNumBins == Na, len(o.bins) == La)))
	zzvAssert("receiver-and-argument-share-no-memory", zzvDisjoint(s, o))
	p := zzvMInt("probe", -(1 << 35), 1<<35)
	var spec float64
	switch {
	case emptyA:
		spec = zzAbsDense(&preS, p)
	default:
		newMin := preO.minIndex
		if !emptyR {
			newMin = zzMinInt(preS.minIndex, preO.minIndex)
		}
		edge := newMin + Nr - 1
		at := zzAbsDense(&preS, p) + zzAbsDense(&preO, p)
		above := zzSumAboveEq(&preS, edge) + zzSumAboveEq(&preO, edge)
		spec = zzvIteF64(p > edge, 0, zzvIteF64(p == edge, above, at))
	}
	zzvAssert("folded-content", zzAbsDense(&s.DenseStore, p) == spec)
}

func ZZ_C05_highest_merge_1_1() { zzC05HighestMerge(1, 1) }
func ZZ_C05_highest_merge_1_3() { zzC05HighestMerge(1, 3) }
func ZZ_C05_highest_merge_2_2() { zzC05HighestMerge(2, 2) }
func ZZ_C05_highest_merge_2_3() { zzC05HighestMerge(2, 3) }
func ZZ_C05_highest_merge_3_1() { zzC05HighestMerge(3, 1) }
func ZZ_C05_highest_merge_3_2() { zzC05HighestMerge(3, 2) }
func ZZ_C05_highest_merge_3_3() { zzC05HighestMerge(3, 3) }
func ZZ_C05_highest_merge_4_4_T() { zzC05HighestMerge(4, 4) }
func ZZ_C05_highest_merge_6_3_T() { zzC05HighestMerge(6, 3) }
func ZZ_C05_highest_merge_2_6_T() { zzC05HighestMerge(2, 6) }
