//go:build verif

package store

import "math"

// ---------- C15: a cleared store is indistinguishable from a new one ----------

// zzC15 : arbitrary valid state of the given kind -> Clear -> (i) invariant, empty content, flags
// reset; (ii) one arbitrary addition on the cleared store and on a freshly constructed one give the
// same content and the same observer answers (two-run comparison; histories beyond one step follow
// by induction from C04/C05, whose step obligations are proven from exactly the state Clear leaves).
func zzC15(kind int) {
	zzvBound("cleared vs new", "every store kind in an arbitrary valid (non-empty) state of the sizes used in C04/C05; after Clear: one addition (unit, weighted or zero weight) on the cleared store and on a new store, compared at a probe index and through TotalCount / MinIndex / MaxIndex / IsEmpty")
	s := ZZState("s", kind)
	zzvAssume(ZZInv(s))
	zzvCover("pre-state")
	s.Clear()
	p := zzvMInt("probe", -(1 << 35), 1<<35)
	zzvAssert("clear-inv", ZZInv(s))
	zzvAssert("clear-content-zero", ZZAbs(s, p) == 0)
	zzvAssert("clear-is-empty", zzvAnd(s.IsEmpty(), s.TotalCount() == 0))
	_, e1 := s.MinIndex()
	_, e2 := s.MaxIndex()
	zzvAssert("clear-min-max-undefined", e1 != nil && e2 != nil)
	var fresh Store
	switch x := s.(type) {
	case *DenseStore:
		fresh = NewDenseStore()
	case *SparseStore:
		fresh = NewSparseStore()
	case *BufferedPaginatedStore:
		fresh = NewBufferedPaginatedStore()
	case *CollapsingLowestDenseStore:
		zzvAssert("clear-resets-collapsed", !x.isCollapsed)
		fresh = NewCollapsingLowestDenseStore(x.maxNumBins)
	case *CollapsingHighestDenseStore:
		zzvAssert("clear-resets-collapsed", !x.isCollapsed)
		fresh = NewCollapsingHighestDenseStore(x.maxNumBins)
	}
	// same two-step history on both
	i := zzIdx("i")
	c := zzW("c")
	j := i + zzvMInt("second", -5, 5)
	zzvAssume(zzvAnd(j >= math.MinInt32, j <= math.MaxInt32))
	s.AddWithCount(i, c)
	fresh.AddWithCount(i, c)
	s.Add(j)
	fresh.Add(j)
	zzvAssert("same-content-after-reuse", ZZAbs(s, p) == ZZAbs(fresh, p))
	zzvAssert("same-total", s.TotalCount() == fresh.TotalCount())
	zzvAssert("same-emptiness", s.IsEmpty() == fresh.IsEmpty())
	a1, ea := s.MinIndex()
	b1, eb := fresh.MinIndex()
	zzvAssert("same-min", zzvAnd((ea == nil) == (eb == nil), ea != nil || a1 == b1))
	a2, ea2 := s.MaxIndex()
	b2, eb2 := fresh.MaxIndex()
	zzvAssert("same-max", zzvAnd((ea2 == nil) == (eb2 == nil), ea2 != nil || a2 == b2))
	zzvAssert("reused-inv", ZZInv(s))
}

func ZZ_C15_store_dense()      { zzC15(1) }
func ZZ_C15_store_sparse()     { zzC15(3) }
func ZZ_C15_store_pag_buffer() { zzC15(5) }
func ZZ_C15_store_pag_pages()  { zzC15(6) }
func ZZ_C15_store_lowest()     { zzC15(7) }
func ZZ_C15_store_highest()    { zzC15(8) }

// the inductive steps from the empty-with-stale-memory states (what Clear leaves) — same
// obligations as C04/C05, listed under C15 because they are what makes reuse safe
func ZZ_C15_step_dense_from_cleared()   { zzC04DenseAdd(0) }
func ZZ_C15_step_pag_from_cleared()     { zzC04PagAdd(5) }
func ZZ_C15_step_lowest_from_cleared()  { zzC05LowestAdd(3) }
func ZZ_C15_step_highest_from_cleared() { zzC05HighestAdd(3) }
func ZZ_C15_merge_into_cleared_pag()    { zzC04PagMergePag(5, 6) }
func ZZ_C15_merge_into_cleared_dense()  { zzC04DenseMergeDense(0, 3) }

// ---------- C16: reweighting (collapsing kinds; the other kinds are in the C04 files) ----------

func zzC16Collapsing(lowest bool) {
	var s Store
	var d *DenseStore
	if lowest {
		x := zzLowestState("s", 3, 3, 0)
		zzvAssume(zzInvLowest(x))
		s, d = x, &x.DenseStore
	} else {
		x := zzHighestState("s", 3, 3, 0)
		zzvAssume(zzInvHighest(x))
		s, d = x, &x.DenseStore
	}
	pre := zzSnapDense(d)
	p := zzvMInt("probe", -(1 << 35), 1<<35)
	w := zzWeightFactor(zzvChoose("w", 5))
	zzvCover("pre-state")
	zzvAssert("reweight-ok", s.Reweight(w) == nil)
	zzvAssert("inv-preserved", ZZInv(s))
	zzvAssert("content-scaled", zzAbsDense(d, p) == w*zzAbsDense(&pre, p))
	zzvAssert("count-scaled", d.count == w*pre.count)
	zzvAssert("window-unchanged", zzvAnd(d.minIndex == pre.minIndex, d.maxIndex == pre.maxIndex))
}

func ZZ_C16_store_lowest()  { zzC16Collapsing(true) }
func ZZ_C16_store_highest() { zzC16Collapsing(false) }
func ZZ_C16_store_dense()   { zzC04DenseReweight(4) }
func ZZ_C16_store_sparse()  { zzC04SparseObservers(2) } // includes the Reweight cases
func ZZ_C16_store_pag_buffer_only() { zzC04PagCopyClearReweight(1) }
func ZZ_C16_store_pag_buffer_and_pages() { zzC04PagCopyClearReweight(3) }
func ZZ_C16_store_pag_two_pages() { zzC04PagCopyClearReweight(4) }

// ---------- C14: reads are pure, copies independent (store level) ----------

func ZZ_C14_store_dense_observers()  { zzC04DenseObservers(4) }
func ZZ_C14_store_dense_copy()       { zzC04DenseCopyClear(4) }
func ZZ_C14_store_sparse_observers() { zzC04SparseObservers(2) }
func ZZ_C14_store_pag_observers_buffer()  { zzC04PagObservers(1) }
func ZZ_C14_store_pag_observers_page()    { zzC04PagObservers(2) }
func ZZ_C14_store_pag_observers_interleaved() { zzC04PagObservers(4) }
func ZZ_C14_store_pag_copy()         { zzC04PagCopyClearReweight(3) }
func ZZ_C14_store_pag_copy_of_cleared() { zzC04PagCopyClearReweight(5) }
func ZZ_C14_store_history_sparse()   { zzHistory(1, 3) }
func ZZ_C11_store_dense_reweight()   { zzC04DenseReweight(4) }

// compact() (run by Encode) and sortBuffer() (run by every ordered read) keep the represented map
func zzC14PagReorg(k int) {
	s := zzPagState("s", zzPagCfgs(k))
	zzvAssume(zzInvPag(s))
	pre := zzSnapPag(s)
	p := zzvMInt("probe", -(1 << 35), 1<<35)
	zzvCover("pre-state")
	if zzvChoose("which", 2) == 0 {
		s.compact()
	} else {
		s.sortBuffer()
	}
	zzvAssert("reorganisation-keeps-inv", zzInvPag(s))
	zzvAssert("reorganisation-keeps-content", zzAbsPag(s, p) == zzAbsPag(pre, p))
	zzvAssert("reorganisation-keeps-total", zzTotalPag(s) == zzTotalPag(pre))
}
func ZZ_C14_store_pag_compact_buffer() { zzC14PagReorg(2) }
func ZZ_C14_store_pag_compact_pages()  { zzC14PagReorg(3) }

// collapsing copies
func ZZ_C14_store_collapsing_copy() {
	lowest := zzvChoose("lowest", 2) == 1
	var s, cp Store
	var d, dc *DenseStore
	if lowest {
		x := zzLowestState("s", 3, 3, 0)
		zzvAssume(zzInvLowest(x))
		y := x.Copy().(*CollapsingLowestDenseStore)
		zzvAssert("copy-flags", zzvAnd(y.isCollapsed == x.isCollapsed, y.maxNumBins == x.maxNumBins))
		s, cp, d, dc = x, y, &x.DenseStore, &y.DenseStore
	} else {
		x := zzHighestState("s", 3, 3, 0)
		zzvAssume(zzInvHighest(x))
		y := x.Copy().(*CollapsingHighestDenseStore)
		zzvAssert("copy-flags", zzvAnd(y.isCollapsed == x.isCollapsed, y.maxNumBins == x.maxNumBins))
		s, cp, d, dc = x, y, &x.DenseStore, &y.DenseStore
	}
	pre := zzSnapDense(d)
	zzvCover("pre-state")
	zzvAssert("copy-equal", zzSameDense(dc, &pre))
	zzvAssert("copy-inv", ZZInv(cp))
	zzvAssert("copy-shares-no-memory-with-original", zzvDisjoint(s, cp))
	i := zzIdx("i")
	zzvAssume(zzvAnd(i >= d.minIndex-6, i <= d.maxIndex+6))
	c := zzWPos("c")
	p := zzvMInt("probe", -(1 << 35), 1<<35)
	if zzvChoose("mutate", 2) == 0 {
		s.AddWithCount(i, c)
		zzvAssert("copy-independent-of-original", zzAbsDense(dc, p) == zzAbsDense(&pre, p))
	} else {
		cp.AddWithCount(i, c)
		zzvAssert("original-independent-of-copy", zzAbsDense(d, p) == zzAbsDense(&pre, p))
	}
	_ = math.MaxInt32
}

// C14: being the argument of a merge (round 2): receiver and argument never share memory afterwards
func ZZ_C14_merge_argument_independent_pag()    { zzC02Matrix(2, 2) }
func ZZ_C14_merge_argument_independent_dense()  { zzC02Matrix(0, 0) }
func ZZ_C14_merge_argument_independent_sparse() { zzC02Matrix(1, 1) }

// C11: sketches whose weights were scaled (round 2): the paginated store's Reweight with entries still buffered
func ZZ_C11_store_pag_reweight_buffer_only()      { zzC04PagCopyClearReweight(1) }
func ZZ_C11_store_pag_reweight_buffer_and_pages() { zzC04PagCopyClearReweight(3) }
