//go:build verif

package store

// C04 — SparseStore. The representation is the abstract map itself; states with M distinct indexes.

type zzGhostMap struct {
	keys []int
	ws   []float64
}

func (g *zzGhostMap) at(p int) float64 {
	v := 0.0
	for j := range g.keys {
		v += zzvIteF64(g.keys[j] == p, g.ws[j], 0)
	}
	return v
}
func (g *zzGhostMap) total() float64 {
	v := 0.0
	for j := range g.ws {
		v += g.ws[j]
	}
	return v
}
func (g *zzGhostMap) sumBelowEq(x int) float64 {
	v := 0.0
	for j := range g.keys {
		v += zzvIteF64(g.keys[j] <= x, g.ws[j], 0)
	}
	return v
}
func (g *zzGhostMap) sumBelow(x int) float64 {
	v := 0.0
	for j := range g.keys {
		v += zzvIteF64(g.keys[j] < x, g.ws[j], 0)
	}
	return v
}

func zzSparseState(tag string, M int) (*SparseStore, *zzGhostMap) {
	s := NewSparseStore()
	g := &zzGhostMap{}
	for j := 0; j < M; j++ {
		k := zzIdx(tag + ".key")
		w := zzWPos(tag + ".w")
		for _, prev := range g.keys {
			zzvAssume(k != prev)
		}
		g.keys = append(g.keys, k)
		g.ws = append(g.ws, w)
		s.counts[k] = w
	}
	return s, g
}

// abstraction of the live map (iteration order irrelevant: commutative exact sums)
func zzAbsSparse(s *SparseStore, p int) float64 {
	zzvMapOrderFixed(true)
	v := 0.0
	for k, w := range s.counts {
		v += zzvIteF64(k == p, w, 0)
	}
	zzvMapOrderFixed(false)
	return v
}
func zzTotalSparse(s *SparseStore) float64 {
	zzvMapOrderFixed(true)
	v := 0.0
	for _, w := range s.counts {
		v += w
	}
	zzvMapOrderFixed(false)
	return v
}
func zzInvSparse(s *SparseStore) bool {
	zzvMapOrderFixed(true)
	ok := true
	for _, w := range s.counts {
		ok = zzvAnd(ok, w > 0)
	}
	zzvMapOrderFixed(false)
	return ok
}

func zzC04SparseAdd(M int) {
	zzvBound("sparse state", "M in {0,1,2,3} distinct symbolic int32 indexes with symbolic positive dyadic weights; every map iteration order explored")
	s, g := zzSparseState("s", M)
	i := zzIdx("i")
	p := zzvMInt("probe", -(1 << 35), 1<<35)
	zzvCover("pre-state")
	switch zzvChoose("op", 3) {
	case 0:
		c := zzW("c")
		s.AddWithCount(i, c)
		zzvAssert("content", zzAbsSparse(s, p) == g.at(p)+zzvIteF64(p == i, c, 0))
		zzvAssert("total", zzTotalSparse(s) == g.total()+c)
	case 1:
		s.Add(i)
		zzvAssert("content", zzAbsSparse(s, p) == g.at(p)+zzvIteF64(p == i, 1, 0))
		zzvAssert("total", zzTotalSparse(s) == g.total()+1)
	case 2:
		c := zzW("c")
		s.AddBin(Bin{index: i, count: c})
		zzvAssert("content", zzAbsSparse(s, p) == g.at(p)+zzvIteF64(p == i, c, 0))
	}
	zzvAssert("inv-preserved", zzInvSparse(s))
}

func ZZ_C04_sparse_add_M0() { zzC04SparseAdd(0) }
func ZZ_C04_sparse_add_M1() { zzC04SparseAdd(1) }
func ZZ_C04_sparse_add_M2() { zzC04SparseAdd(2) }
func ZZ_C04_sparse_add_M3() { zzC04SparseAdd(3) }
func ZZ_C04_sparse_add_M4_T() { zzC04SparseAdd(4) }

func zzC04SparseObservers(M int) {
	s, g := zzSparseState("s", M)
	total := g.total()
	q := zzvMInt("probe", -(1 << 35), 1<<35)
	zzvCover("pre-state")
	switch zzvChoose("observer", 7) {
	case 0:
		zzvAssert("total-count", s.TotalCount() == total)
		zzvAssert("is-empty", s.IsEmpty() == (M == 0))
	case 1:
		mn, err := s.MinIndex()
		mx, err2 := s.MaxIndex()
		if M == 0 {
			zzvAssert("min-max-error-when-empty", err != nil && err2 != nil)
		} else {
			zzvAssert("min-max-ok", err == nil && err2 == nil)
			zzvAssert("min-nonempty", g.at(mn) > 0)
			zzvAssert("max-nonempty", g.at(mx) > 0)
			zzvAssert("nothing-below-min", zzvImplies(q < mn, g.at(q) == 0))
			zzvAssert("nothing-above-max", zzvImplies(q > mx, g.at(q) == 0))
		}
	case 2:
		if M == 0 {
			return
		}
		rank := zzvDyadic("rank", zzG, -zzWMax, 8*zzWMax)
		r := s.KeyAtRank(rank)
		// note: the sparse store does not clamp negative ranks explicitly; the specification does
		rk := zzvIteF64(rank < 0, 0, rank)
		zzvAssert("rank-first-exceeding", zzvImplies(rk < total, zzvAnd(g.sumBelowEq(r) > rk, g.sumBelow(r) <= rk)))
		zzvAssert("rank-result-nonempty", g.at(r) > 0)
		zzvAssert("rank-clamped-to-max", zzvImplies(rk >= total, zzvAnd(g.at(r) > 0, g.sumBelowEq(r) == total)))
	case 3:
		stopAfter := zzvChoose("stopAfter", 3)
		var idxs []int
		var ws []float64
		s.ForEach(func(index int, count float64) bool {
			idxs = append(idxs, index)
			ws = append(ws, count)
			return stopAfter != 0 && len(idxs) == stopAfter
		})
		sum := 0.0
		found := false
		for k := range idxs {
			zzvAssert("foreach-weight", zzvAnd(ws[k] > 0, ws[k] == g.at(idxs[k])))
			for k2 := 0; k2 < k; k2++ {
				zzvAssert("foreach-distinct", idxs[k] != idxs[k2])
			}
			sum += ws[k]
			found = zzvOr(found, idxs[k] == q)
		}
		if stopAfter == 0 {
			zzvAssert("foreach-total", sum == total)
			zzvAssert("foreach-complete", zzvImplies(g.at(q) > 0, found))
		} else {
			zzvAssert("foreach-stops", len(idxs) <= stopAfter)
		}
	case 4:
		var idxs []int
		sum := 0.0
		found := false
		for b := range s.Bins() {
			zzvAssert("bins-weight", zzvAnd(b.count > 0, b.count == g.at(b.index)))
			if len(idxs) > 0 {
				zzvAssert("bins-increasing", b.index > idxs[len(idxs)-1])
			}
			idxs = append(idxs, b.index)
			sum += b.count
			found = zzvOr(found, b.index == q)
		}
		zzvAssert("bins-total", sum == total)
		zzvAssert("bins-complete", zzvImplies(g.at(q) > 0, found))
	case 5:
		s.KeyAtRank(0) // a read before copying (reads may build internal caches)
		cp := s.Copy().(*SparseStore)
		zzvAssert("copy-equal", zzAbsSparse(cp, q) == g.at(q))
		zzvAssert("copy-shares-no-memory-with-original", zzvDisjoint(s, cp))
		i := zzIdx("i")
		c := zzWPos("c")
		if zzvChoose("mutate", 2) == 0 {
			s.AddWithCount(i, c)
			zzvAssert("copy-independent-of-original", zzAbsSparse(cp, q) == g.at(q))
		} else {
			cp.AddWithCount(i, c)
			zzvAssert("original-independent-of-copy", zzAbsSparse(s, q) == g.at(q))
		}
		return
	case 6:
		if zzvChoose("clear", 2) == 0 {
			s.Clear()
			zzvAssert("clear-empty", zzvAnd(s.IsEmpty(), s.TotalCount() == 0))
			zzvAssert("clear-content-zero", zzAbsSparse(s, q) == 0)
			return
		}
		if zzvChoose("refuse", 2) == 1 {
			w := zzvDyadic("w", zzG, -zzWMax, 0)
			zzvAssert("nonpositive-factor-refused", s.Reweight(w) != nil)
		} else {
			w := zzWeightFactor(zzvChoose("w", 5))
			zzvAssert("reweight-ok", s.Reweight(w) == nil)
			zzvAssert("content-scaled", zzAbsSparse(s, q) == w*g.at(q))
			zzvAssert("inv-preserved", zzInvSparse(s))
			return
		}
	}
	zzvAssert("observer-pure", zzvAnd(zzAbsSparse(s, q) == g.at(q), zzTotalSparse(s) == total))
}

func ZZ_C04_sparse_observers_M0() { zzC04SparseObservers(0) }
func ZZ_C04_sparse_observers_M1() { zzC04SparseObservers(1) }
func ZZ_C04_sparse_observers_M2() { zzC04SparseObservers(2) }
func ZZ_C04_sparse_observers_M3() { zzC04SparseObservers(3) }
func ZZ_C04_sparse_observers_M4_T() { zzC04SparseObservers(4) }
