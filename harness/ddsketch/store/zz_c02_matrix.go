//go:build verif

package store

// Cross-kind merges (C02 / C05): receiver and argument of every kind are first BUILT by the real
// code (a short history of weighted additions at indexes base+delta, base symbolic, deltas from
// enumerated patterns, weights symbolic), then merged; the content is compared with the exact sum
// (folded at the collapsing edge when the receiver is bounded).

func zzNewKind(kind int) Store {
	switch kind {
	case 0:
		return NewDenseStore()
	case 1:
		return NewSparseStore()
	case 2:
		return NewBufferedPaginatedStore()
	case 3:
		return NewCollapsingLowestDenseStore(3)
	case 4:
		return NewCollapsingHighestDenseStore(3)
	}
	panic("bad kind")
}

var zzKindName = []string{"dense", "sparse", "paginated", "lowest3", "highest3"}

// delta patterns: clustered, duplicates, far apart across page/array boundaries, single, empty
var zzPatterns = [][]int{
	{},
	{0},
	{0, 1, 2},
	{5, 5, 3},
	{-1, 31, 32},
}

type zzBuilt struct {
	idx []int
	w   []float64
}

func (g *zzBuilt) at(p int) float64 {
	v := 0.0
	for j := range g.idx {
		v += zzvIteF64(g.idx[j] == p, g.w[j], 0)
	}
	return v
}

// zzBuild adds weights (unit weights when unit is true, exercising the paginated buffer) at
// base+delta for each delta of the pattern, through the real AddWithCount.
func zzBuild(s Store, tag string, base int, pattern []int, unit bool) *zzBuilt {
	g := &zzBuilt{}
	for _, d := range pattern {
		w := 1.0
		if !unit {
			w = zzWPos(tag + ".w")
		}
		s.AddWithCount(base+d, w)
		g.idx = append(g.idx, base+d)
		g.w = append(g.w, w)
	}
	return g
}

func zzAbsAny(s Store, p int) float64 { return ZZAbs(s, p) }

func zzC02Matrix(kr, ka int) {
	zzvBound("cross-kind merge", "receiver and argument kinds from {dense, sparse, paginated, lowest-collapsing N=3, highest-collapsing N=3}; each built by the real code from one of 5 index patterns (<=3 additions: empty / single / clustered / duplicates / across a page boundary), argument shifted by 0/-3/37, unit or symbolic weights; index base = 32*pageBase + {0,30} with pageBase symbolic")
	// base = 32*pageBase + r : the alignment of the pattern with page boundaries is enumerated
	base := 32*zzvMInt("pageBase", -(1<<25), 1<<25) + []int{0, 30}[zzvChoose("alignment", 2)]
	pr := zzPatterns[zzvChoose("receiverPattern", len(zzPatterns))]
	pa := zzPatterns[zzvChoose("argumentPattern", len(zzPatterns))]
	unitR := zzvChoose("unitWeights", 2) == 1
	unitA := unitR
	shift := []int{0, -3, 37}[zzvChoose("argumentShift", 3)]
	s := zzNewKind(kr)
	o := zzNewKind(ka)
	gs := zzBuild(s, "s", base, pr, unitR)
	go_ := zzBuild(o, "o", base+shift, pa, unitA)
	zzvAssert("built-receiver-inv", ZZInv(s))
	zzvAssert("built-argument-inv", ZZInv(o))
	oSnap := ZZSnap(o)
	zzvCover("built")
	s.MergeWith(o)
	zzvAssert("inv-preserved", ZZInv(s))
	p := base + zzvMInt("probeRel", -80, 120)
	// the argument's content is what the argument actually holds (already folded if it is bounded)
	at := gs.at(p) + zzAbsAny(oSnap, p)
	_ = go_
	switch kr {
	case 3: // lowest-collapsing N=3: fold below max-2
		mx, err := s.MaxIndex()
		if err == nil {
			edge := mx - 2
			below := 0.0
			for j := range gs.idx {
				below += zzvIteF64(gs.idx[j] <= edge, gs.w[j], 0)
			}
			below += ZZSumBelowEq(oSnap, edge)
			zzvAssert("content-folded", zzAbsAny(s, p) == zzvIteF64(p < edge, 0, zzvIteF64(p == edge, below, at)))
		} else {
			zzvAssert("empty-result-only-from-empty-inputs", len(pr) == 0 && len(pa) == 0)
		}
	case 4: // highest-collapsing N=3: fold above min+2
		mn, err := s.MinIndex()
		if err == nil {
			edge := mn + 2
			above := 0.0
			for j := range gs.idx {
				above += zzvIteF64(gs.idx[j] >= edge, gs.w[j], 0)
			}
			above += ZZTotal(oSnap) - ZZSumBelowEq(oSnap, edge-1)
			zzvAssert("content-folded", zzAbsAny(s, p) == zzvIteF64(p > edge, 0, zzvIteF64(p == edge, above, at)))
		} else {
			zzvAssert("empty-result-only-from-empty-inputs", len(pr) == 0 && len(pa) == 0)
		}
	default:
		zzvAssert("content-is-sum", zzAbsAny(s, p) == at)
	}
	if ka <= 2 {
		zzvAssert("argument-content-unchanged", zzAbsAny(o, p) == zzAbsAny(oSnap, p))
	} else {
		zzvAssert("argument-unchanged", ZZSameExact(o, oSnap))
	}
	zzvAssert("argument-inv", ZZInv(o))
	zzvAssert("receiver-and-argument-share-no-memory", zzvDisjoint(s, o))
	tot := 0.0
	for _, w := range gs.w {
		tot += w
	}
	for _, w := range go_.w {
		tot += w
	}
	zzvAssert("total-conserved", s.TotalCount() == tot)
}

func ZZ_C02_matrix_dense_dense()   { zzC02Matrix(0, 0) }
func ZZ_C02_matrix_dense_sparse()  { zzC02Matrix(0, 1) }
func ZZ_C02_matrix_dense_pag()     { zzC02Matrix(0, 2) }
func ZZ_C02_matrix_sparse_dense()  { zzC02Matrix(1, 0) }
func ZZ_C02_matrix_sparse_sparse() { zzC02Matrix(1, 1) }
func ZZ_C02_matrix_sparse_pag()    { zzC02Matrix(1, 2) }
func ZZ_C02_matrix_pag_dense()     { zzC02Matrix(2, 0) }
func ZZ_C02_matrix_pag_sparse()    { zzC02Matrix(2, 1) }
func ZZ_C02_matrix_pag_pag()       { zzC02Matrix(2, 2) }

// C05: every merge is safe whatever the kinds
func ZZ_C05_matrix_lowest_dense()    { zzC02Matrix(3, 0) }
func ZZ_C05_matrix_lowest_sparse()   { zzC02Matrix(3, 1) }
func ZZ_C05_matrix_lowest_pag()      { zzC02Matrix(3, 2) }
func ZZ_C05_matrix_lowest_lowest()   { zzC02Matrix(3, 3) }
func ZZ_C05_matrix_lowest_highest()  { zzC02Matrix(3, 4) }
func ZZ_C05_matrix_highest_dense()   { zzC02Matrix(4, 0) }
func ZZ_C05_matrix_highest_sparse()  { zzC02Matrix(4, 1) }
func ZZ_C05_matrix_highest_pag()     { zzC02Matrix(4, 2) }
func ZZ_C05_matrix_highest_highest() { zzC02Matrix(4, 4) }
func ZZ_C05_matrix_highest_lowest()  { zzC02Matrix(4, 3) }
func ZZ_C05_matrix_dense_lowest()    { zzC02Matrix(0, 3) }
func ZZ_C05_matrix_sparse_highest()  { zzC02Matrix(1, 4) }
func ZZ_C05_matrix_pag_lowest()      { zzC02Matrix(2, 3) }
