//go:build verif

package ddsketch

import "github.com/DataDog/sketches-go/ddsketch/store"

// C02 — one merge step at sketch level: both sides and the zero bucket add up, the argument is
// unchanged, an empty argument is a no-op, a mismatched mapping is refused and changes nothing.

func zzC02Merge(kr, ka int) {
	zzvBound("merge pairs", "sketch-level wiring: receiver/argument stores dense L=1, sparse M=1, paginated B=1 or cleared, in arbitrary valid states, index ranges within 8 of a common centre; larger states and all kind pairs are covered by the store-level matrix and C04")
	m := zzStub(1)
	s := zzSketch("s", m, kr, kr)
	o := zzSketch("o", m, ka, ka)
	c := zzvMInt("centre", -(1 << 30), 1<<30)
	zzvAssume(zzWithin(s, c, 8))
	zzvAssume(zzWithin(o, c, 8))
	gs, go_ := zzSnapSketch(s), zzSnapSketch(o)
	p := zzProbe()
	zzvCover("pre-state")
	err := s.MergeWith(o)
	zzvAssert("merge-ok", err == nil)
	zzvAssert("inv-preserved", zzInvSketch(s))
	zzvAssert("positive-side-adds-up", store.ZZAbs(s.positiveValueStore, p) == store.ZZAbs(gs.pos, p)+store.ZZAbs(go_.pos, p))
	zzvAssert("negative-side-adds-up", store.ZZAbs(s.negativeValueStore, p) == store.ZZAbs(gs.neg, p)+store.ZZAbs(go_.neg, p))
	zzvAssert("zero-weight-adds-up", s.zeroCount == gs.zero+go_.zero)
	zzvAssert("count-adds-up", s.GetCount() == store.ZZTotal(gs.pos)+store.ZZTotal(gs.neg)+gs.zero+store.ZZTotal(go_.pos)+store.ZZTotal(go_.neg)+go_.zero)
	zzvAssert("argument-content-unchanged", zzSameContent(o, go_, p))
	zzvAssert("argument-inv", zzInvSketch(o))
	zzvAssert("sketches-share-no-store-memory", zzvAnd(zzvDisjoint(s.positiveValueStore, o.positiveValueStore), zzvDisjoint(s.negativeValueStore, o.negativeValueStore)))
}

func zzWithin(s *DDSketch, c, d int) bool {
	return zzvAnd(store.ZZWithin(s.positiveValueStore, c, d), store.ZZWithin(s.negativeValueStore, c, d))
}

// sketch-level wiring with small stores (the store-level steps are C04's and the cross-kind matrix)
func ZZ_C02_sketch_merge_dense_sparse() { zzC02Merge(11, 12) }
func ZZ_C02_sketch_merge_sparse_pag()   { zzC02Merge(12, 13) }
func ZZ_C02_sketch_merge_pag_dense()    { zzC02Merge(13, 11) }
func ZZ_C02_sketch_merge_into_cleared() { zzC02Merge(9, 12) }

// merging an empty sketch is a no-op; a mismatched mapping is refused and nothing changes
func ZZ_C02_merge_noop_and_refusal() {
	kind := zzQuickKinds[zzvChoose("kind", 3)]
	s := zzSketch("s", zzStub(1), kind, kind)
	g := zzSnapSketch(s)
	p := zzProbe()
	zzvCover("pre-state")
	if zzvChoose("case", 2) == 0 {
		ek := []int{0, 2, 4, 9, 10}[zzvChoose("emptyKind", 5)]
		e := &DDSketch{IndexMapping: zzStub(1), positiveValueStore: store.ZZState("e.pos", ek), negativeValueStore: store.ZZState("e.neg", ek)}
		zzvAssume(zzInvSketch(e))
		zzvAssert("merge-empty-ok", s.MergeWith(e) == nil)
		zzvAssert("merge-empty-noop", zzSameContent(s, g, p))
		zzvAssert("inv-preserved", zzInvSketch(s))
	} else {
		o := zzSketch("o", zzStub(2), kind, kind)
		go_ := zzSnapSketch(o)
		zzvAssert("mismatch-refused", s.MergeWith(o) != nil)
		zzvAssert("refused-receiver-unchanged", zzSameExact(s, g))
		zzvAssert("refused-argument-unchanged", zzSameExact(o, go_))
	}
}
