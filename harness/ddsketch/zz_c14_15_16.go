//go:build verif

package ddsketch

import (
	"math"

	"github.com/DataDog/sketches-go/ddsketch/store"
)

// the interesting store kind sits on one side, a one-bin sparse store on the other (chosen by the
// harness), so that the two sides' path counts do not multiply
func zzSketch1(tag string, kind int) *DDSketch {
	if zzvChoose(tag+".side", 2) == 0 {
		return zzSketch(tag, zzStub(1), kind, 12)
	}
	return zzSketch(tag, zzStub(1), 12, kind)
}

func zzExact(tag string, kind int, exactIEEEMinMax bool) (*DDSketchWithExactSummaryStatistics, float64) {
	inner := zzSketch1(tag, kind)
	count := store.ZZTotal(inner.positiveValueStore) + store.ZZTotal(inner.negativeValueStore) + inner.zeroCount
	return &DDSketchWithExactSummaryStatistics{DDSketch: inner, summaryStatistics: zzStats(tag, count, exactIEEEMinMax)}, count
}

// ---------- C16 ----------

func zzC16Sketch(kind int, exact bool) {
	zzvBound("sketch reweight", "stores of one kind per harness (dense L=3, sparse M=2, paginated B=2, paginated pages+buffer, collapsing N=2) in arbitrary valid states on both sides, symbolic zero weight; factors {1/4,1/2,1,2,3}; refused factors {0,-1/4,-1,-3}")
	var s *DDSketch
	var e *DDSketchWithExactSummaryStatistics
	if exact {
		e, _ = zzExact("s", kind, false)
		s = e.DDSketch
	} else {
		s = zzSketch1("s", kind)
	}
	g := zzSnapSketch(s)
	var c0, s0, mn0, mx0 float64
	if exact {
		c0, s0, mn0, mx0 = e.summaryStatistics.Count(), e.summaryStatistics.Sum(), e.summaryStatistics.Min(), e.summaryStatistics.Max()
	}
	p := zzProbe()
	zzvCover("pre-state")
	if zzvChoose("refuse", 2) == 1 {
		// non-positive factors from a grid (a symbolic factor could not be multiplied with symbolic weights
		// should the implementation touch anything before refusing)
		w := []float64{0, -0.25, -1, -3}[zzvChoose("w", 4)]
		var err error
		if exact {
			err = e.Reweight(w)
		} else {
			err = s.Reweight(w)
		}
		zzvAssert("nonpositive-factor-refused", err != nil)
		zzvAssert("refused-unchanged", zzSameExact(s, g))
		if exact {
			zzvAssert("refused-statistics-unchanged", zzvAnd(e.summaryStatistics.Count() == c0, zzvAnd(e.summaryStatistics.Sum() == s0, zzvAnd(e.summaryStatistics.Min() == mn0, e.summaryStatistics.Max() == mx0))))
		}
		return
	}
	w := store.ZZFactor(zzvChoose("w", 5))
	var err error
	if exact {
		err = e.Reweight(w)
	} else {
		err = s.Reweight(w)
	}
	zzvAssert("reweight-ok", err == nil)
	zzvAssert("inv-preserved", zzInvSketch(s))
	zzvAssert("positive-side-scaled", store.ZZAbs(s.positiveValueStore, p) == w*store.ZZAbs(g.pos, p))
	zzvAssert("negative-side-scaled", store.ZZAbs(s.negativeValueStore, p) == w*store.ZZAbs(g.neg, p))
	zzvAssert("zero-weight-scaled", s.zeroCount == w*g.zero)
	if kind != 5 && kind != 6 {
		// (for the paginated store the same fact is the per-index statement above; the sum over
		// re-paged buffer entries at symbolic lines is beyond the solver)
		zzvAssert("count-scaled", s.GetCount() == w*(store.ZZTotal(g.pos)+store.ZZTotal(g.neg)+g.zero))
	}
	if w == 1 {
		zzvAssert("factor-one-is-noop", zzSameExact(s, g))
	}
	if exact {
		zzvAssert("exact-count-scaled", e.GetCount() == w*c0)
		zzvAssert("exact-sum-scaled", e.GetSum() == w*s0)
		zzvAssert("exact-min-max-unchanged", zzvAnd(e.summaryStatistics.Min() == mn0, e.summaryStatistics.Max() == mx0))
	}
}

// only the zero bucket holds weight (both stores empty, new or cleared)
func zzC16ZeroOnly(exact bool) {
	ek := []int{0, 2, 4, 9, 10}[zzvChoose("emptyKind", 5)]
	s := zzSketch("s", zzStub(1), ek, ek)
	zzvAssume(zzInvSketch(s))
	z0 := s.zeroCount
	var e *DDSketchWithExactSummaryStatistics
	if exact {
		e = &DDSketchWithExactSummaryStatistics{DDSketch: s, summaryStatistics: zzStats("s", z0, false)}
	}
	w := store.ZZFactor(zzvChoose("w", 5))
	zzvCover("pre-state")
	if exact {
		c0 := e.GetCount()
		zzvAssert("reweight-ok", e.Reweight(w) == nil)
		zzvAssert("exact-count-scaled", e.GetCount() == w*c0)
	} else {
		zzvAssert("reweight-ok", s.Reweight(w) == nil)
	}
	zzvAssert("zero-bucket-scaled", s.zeroCount == w*z0)
	zzvAssert("count-scaled", s.GetCount() == w*z0)
}
func ZZ_C16_sketch_zero_bucket_only()       { zzC16ZeroOnly(false) }
func ZZ_C16_sketch_exact_zero_bucket_only() { zzC16ZeroOnly(true) }
func ZZ_C16_sketch_dense()        { zzC16Sketch(1, false) }
func ZZ_C16_sketch_sparse()       { zzC16Sketch(3, false) }
func ZZ_C16_sketch_pag_buffer()   { zzC16Sketch(5, false) }
func ZZ_C16_sketch_pag_pages()    { zzC16Sketch(6, false) }
func ZZ_C16_sketch_lowest()       { zzC16Sketch(7, false) }
func ZZ_C16_sketch_exact_dense()  { zzC16Sketch(1, true) }
func ZZ_C16_sketch_exact_sparse() { zzC16Sketch(3, true) }
func ZZ_C16_sketch_exact_pag()    { zzC16Sketch(5, true) }

// ---------- C15 ----------

func zzC15Sketch(kind int, exact bool) {
	zzvBound("sketch clear", "both sketch variants, stores of one kind per harness in arbitrary valid states")
	var s *DDSketch
	var e *DDSketchWithExactSummaryStatistics
	if exact {
		e, _ = zzExact("s", kind, false)
		s = e.DDSketch
	} else {
		s = zzSketch1("s", kind)
	}
	p := zzProbe()
	zzvCover("pre-state")
	if exact {
		e.Clear()
	} else {
		s.Clear()
	}
	zzvAssert("clear-inv", zzInvSketch(s))
	zzvAssert("clear-content-zero", zzvAnd(store.ZZAbs(s.positiveValueStore, p) == 0, zzvAnd(store.ZZAbs(s.negativeValueStore, p) == 0, s.zeroCount == 0)))
	zzvAssert("clear-empty", zzvAnd(s.IsEmpty(), s.GetCount() == 0))
	_, err := s.GetValueAtQuantile(0.5)
	zzvAssert("clear-quantile-errs", err != nil)
	_, err = s.GetMinValue()
	zzvAssert("clear-min-errs", err != nil)
	if exact {
		zzvAssert("clear-statistics-reset", zzvAnd(e.IsEmpty(), zzvAnd(e.GetCount() == 0, zzvAnd(e.GetSum() == 0,
			zzvAnd(e.summaryStatistics.Min() == math.Inf(1), e.summaryStatistics.Max() == math.Inf(-1))))))
		_, err = e.GetMinValue()
		zzvAssert("clear-exact-min-errs", err != nil)
	}
	// reuse: a zero-bucket addition and a merge of a small sketch behave as on a new sketch
	c := store.ZZW("c")
	zzvAssert("add-after-clear-ok", s.AddWithCount(0, c) == nil)
	zzvAssert("zero-weight-after-reuse", s.zeroCount == c)
	o := zzSketch("o", zzStub(1), 12, 12)
	gO := zzSnapSketch(o)
	zzvAssert("merge-after-clear-ok", s.MergeWith(o) == nil)
	zzvAssert("content-after-reuse", zzvAnd(store.ZZAbs(s.positiveValueStore, p) == store.ZZAbs(gO.pos, p), store.ZZAbs(s.negativeValueStore, p) == store.ZZAbs(gO.neg, p)))
	zzvAssert("reused-inv", zzInvSketch(s))
}

func ZZ_C15_sketch_dense()       { zzC15Sketch(1, false) }
func ZZ_C15_sketch_sparse()      { zzC15Sketch(3, false) }
func ZZ_C15_sketch_pag()         { zzC15Sketch(6, false) }
func ZZ_C15_sketch_lowest()      { zzC15Sketch(7, false) }
func ZZ_C15_sketch_exact_dense() { zzC15Sketch(1, true) }
func ZZ_C15_sketch_exact_pag()   { zzC15Sketch(5, true) }

// ---------- C14 ----------

func zzC14Sketch(kind int, exact bool) {
	zzvBound("sketch reads", "both sketch variants; stores of one kind per harness in arbitrary valid states; every read-only entry point once, then full comparison of the represented content; quantiles at q in {0, 1/4, 1/2, 1} (dyadic, so that rank arithmetic stays exact)")
	var s *DDSketch
	var e *DDSketchWithExactSummaryStatistics
	if exact {
		e, _ = zzExact("s", kind, true)
		s = e.DDSketch
	} else {
		s = zzSketch1("s", kind)
	}
	g := zzSnapSketch(s)
	var c0, s0, mn0, mx0 float64
	if exact {
		c0, s0, mn0, mx0 = e.summaryStatistics.Count(), e.summaryStatistics.Sum(), e.summaryStatistics.Min(), e.summaryStatistics.Max()
	}
	p := zzProbe()
	zzvCover("pre-state")
	switch zzvChoose("read", 9) {
	case 0:
		s.GetCount()
		s.GetZeroCount()
		s.IsEmpty()
		if exact {
			e.GetCount()
			e.IsEmpty()
			e.GetSum()
		}
	case 1:
		s.GetMinValue()
		s.GetMaxValue()
		if exact {
			e.GetMinValue()
			e.GetMaxValue()
		}
	case 2:
		q := []float64{0, 0.25, 0.5, 1}[zzvChoose("q", 4)]
		if exact {
			e.GetValueAtQuantile(q)
		} else {
			s.GetValueAtQuantile(q)
		}
	case 3:
		if exact {
			e.GetValuesAtQuantiles([]float64{0, 1})
		} else {
			s.GetValuesAtQuantiles([]float64{0.5, 1})
		}
	case 4:
		n := 0
		stop := zzvChoose("stopAfter", 3)
		s.ForEach(func(v, c float64) bool { n++; return stop != 0 && n == stop })
	case 5:
		s.ToProto()
	case 6:
		// being the argument of a merge
		r := zzSketch("r", zzStub(1), 12, 12)
		if exact {
			re := &DDSketchWithExactSummaryStatistics{DDSketch: r, summaryStatistics: zzStats("r", 0, false)}
			zzvAssume(r.IsEmpty())
			re.MergeWith(e)
		} else {
			r.MergeWith(s)
		}
	case 7:
		// copy: equal content, then independent under mutation of either side
		var cp *DDSketch
		var ce *DDSketchWithExactSummaryStatistics
		if exact {
			ce = e.Copy()
			cp = ce.DDSketch
			zzvAssert("copy-statistics-equal", zzvAnd(ce.GetCount() == c0, zzvAnd(ce.GetSum() == s0, zzvAnd(ce.summaryStatistics.Min() == mn0, ce.summaryStatistics.Max() == mx0))))
		} else {
			cp = s.Copy()
		}
		zzvAssert("copy-content-equal", zzSameContent(cp, g, p))
		zzvAssert("copy-inv", zzInvSketch(cp))
		zzvAssert("copy-stores-share-no-memory", zzvAnd(zzvDisjoint(cp.positiveValueStore, s.positiveValueStore), zzvAnd(zzvDisjoint(cp.negativeValueStore, s.negativeValueStore),
			zzvAnd(zzvDisjoint(cp.positiveValueStore, s.negativeValueStore), zzvDisjoint(cp.negativeValueStore, s.positiveValueStore)))))
		if exact {
			zzvAssert("copy-statistics-share-no-memory", zzvDisjoint(ce.summaryStatistics, e.summaryStatistics))
		}
		w := store.ZZWPos("c")
		if zzvChoose("mutate", 2) == 0 {
			if exact {
				e.AddWithCount(0, w)
				e.Reweight(2)
				zzvAssert("copy-statistics-independent", zzvAnd(ce.GetCount() == c0, ce.GetSum() == s0))
			} else {
				s.AddWithCount(0, w)
				s.Reweight(2)
			}
			zzvAssert("copy-independent-of-original", zzSameContent(cp, g, p))
		} else {
			if exact {
				ce.AddWithCount(0, w)
				ce.Reweight(2)
				zzvAssert("original-statistics-independent", zzvAnd(e.GetCount() == c0, e.GetSum() == s0))
			} else {
				cp.AddWithCount(0, w)
				cp.Reweight(2)
			}
			zzvAssert("original-independent-of-copy", zzSameContent(s, g, p))
		}
		return
	case 8:
		// binary encoding (compacts the paginated store) leaves the represented content unchanged
		b := []byte{}
		if exact {
			zzvAssumption("Encode of the exact-summary variant is exercised with integer-valued statistics only here")
			return
		}
		zzvAssume(zzSmallIntegerWeights(s))
		s.Encode(&b, zzvChoose("omitMapping", 2) == 1)
	}
	zzvAssert("read-keeps-inv", zzInvSketch(s))
	zzvAssert("read-keeps-content", zzSameContent(s, g, p))
	if exact {
		zzvAssert("read-keeps-statistics", zzvAnd(e.summaryStatistics.Count() == c0, zzvAnd(e.summaryStatistics.Sum() == s0, zzvAnd(e.summaryStatistics.Min() == mn0, e.summaryStatistics.Max() == mx0))))
	}
}

// Encode bit-casts weights (varfloat), which the dyadic abstraction cannot follow; purity of Encode
// is therefore checked in the C06 harnesses (exact-IEEE weights). Here: skip.
func zzSmallIntegerWeights(s *DDSketch) bool { return false }

func ZZ_C14_sketch_dense()       { zzC14Sketch(1, false) }
func ZZ_C14_sketch_sparse()      { zzC14Sketch(3, false) }
func ZZ_C14_sketch_pag_buffer()  { zzC14Sketch(5, false) }
func ZZ_C14_sketch_pag_pages()   { zzC14Sketch(6, false) }
func ZZ_C14_sketch_lowest()      { zzC14Sketch(7, false) }
func ZZ_C14_sketch_exact_dense() { zzC14Sketch(1, true) }
func ZZ_C14_sketch_exact_pag()   { zzC14Sketch(5, true) }
