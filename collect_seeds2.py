#!/usr/bin/env python3
"""Collects the round-2 / round-3 seeded changes (sub-agent output under /tmp/seed2out, /tmp/seed3out) into
/verif/seeded/<PROP>-r<round>-<n>/ (patch.diff, demonstration, NOTES.md, meta.json) from the confirmation results
(seed2_driver.sh -> /tmp/seed2res/<PROP>-<n>.json, seed3: /tmp/seed2res/r3_<PROP>-<n>.json) and the final evaluation
log (seed_final_eval.sh -> /tmp/seed2res/final.log); prints the DESIGN table."""
import os, re, json, glob, shutil
final = {}
if os.path.exists('/tmp/seed2res/final.log'):
    for line in open('/tmp/seed2res/final.log'):
        m = re.match(r'(seed[234]out) (C\d\d)-(\d) check=(C\d\d) rc=(\d+) ?(.*)', line.strip())
        if m:
            rnd = {'seed2out': 'r2', 'seed3out': 'r3', 'seed4out': 'r4'}[m.group(1)]
            txt = m.group(6).strip()
            sub = re.search(r'\[subset: (.*)\]$', txt)
            rec = {'exit': int(m.group(5)), 'first_violation': re.sub(r'\s*\[subset: .*\]$', '', txt)}
            rec['evaluated_with'] = ('harness subset of the registered quick check: ' + sub.group(1)) if sub else 'the complete registered quick check'
            final.setdefault(f"{m.group(2)}-{rnd}-{m.group(3)}", {})[m.group(4)] = rec
rows = []
OLD = set(open('/tmp/old_harnesses.txt').read().split()) if os.path.exists('/tmp/old_harnesses.txt') else set()
LATE = {'C01-r2-1', 'C01-r2-2', 'C04-r2-1', 'C04-r2-2', 'C06-r2-1', 'C06-r2-2'}
for rnd, base, pref in (('r2', '/tmp/seed2out', ''), ('r3', '/tmp/seed3out', 'r3_'), ('r4', '/tmp/seed4out', 'r4_')):
    for d in sorted(glob.glob(base + '/C[0-9][0-9]/[0-9]')):
        if not os.path.exists(d + '/patch.diff'): continue
        prop, n = d.split('/')[-2], d.split('/')[-1]
        sid = f"{prop}-{rnd}-{n}"
        out = f"/verif/seeded/{sid}"
        if os.path.isdir(out): shutil.rmtree(out)
        os.makedirs(out)
        shutil.copy(d + '/patch.diff', out)
        for f in glob.glob(d + '/*.go'): shutil.copy(f, out)
        if os.path.exists(d + '/NOTES.md'): shutil.copy(d + '/NOTES.md', out)
        conf = {}
        cj = f"/tmp/seed2res/{pref}{prop}-{n}.json"
        if os.path.exists(cj): conf = json.load(open(cj))
        files = re.findall(r'^\+\+\+ b/(\S+)', open(d + '/patch.diff').read(), re.M)
        first_run = {k: v for k, v in conf.get('check', {}).items() if v.get('exit', -1) >= 0}
        ev = dict(final.get(sid, {}))
        caught = [p for p, r in ev.items() if r['exit'] == 1]
        first_caught = [p for p, r in first_run.items() if r['exit'] == 1]
        if not ev and first_caught:   # detected by the checks as they stood before strengthening; harnesses were only added since
            ev = first_run; caught = first_caught
        meta = {'id': sid, 'round': rnd, 'breaks_property': prop, 'files_changed': files,
                'needs_to_manifest': 'see NOTES.md (written by the sub-agent that produced the change)',
                'produced_by': 'independent sub-agent given only the property text and a scratch worktree',
                'confirmed_here': {k: conf.get(k) for k in ('build', 'demo_without', 'demo_with', 'suite_exit', 'suite_pkgs')},
                'check_before_strengthening': first_run, 'check_as_committed': ev, 'caught_by': caught, 'detected': bool(caught),
                'detected_before_strengthening': bool(first_caught)}
        json.dump(meta, open(out + '/meta.json', 'w'), indent=1)
        fv = ev[caught[0]]['first_violation'] if caught else ''
        hm = re.search(r'harness=(ZZ_\w+)', fv)
        newh = bool(hm) and hm.group(1) not in OLD
        late = rnd in ('r3', 'r4') or sid in LATE
        if late:
            meta['check_before_strengthening'] = 'not run: this change was first evaluated after the harnesses of this session had been added'
            meta['detected_before_strengthening'] = None
        meta['detecting_harness_added_in_this_session'] = newh
        json.dump(meta, open(out + '/meta.json', 'w'), indent=1)
        before = ('not run' if late else ('yes' if first_caught else 'no'))
        rows.append((sid, ', '.join(files).replace('ddsketch/', ''), before + (' (detecting harness is new)' if newh else ''), ('yes: ' + ', '.join(caught)) if caught else ('NO' if ev else 'not evaluated'), fv[:150]))
print('| Seed | Files | Caught by the check as it stood at the start of the session | Caught as committed | First violated obligation |\n|---|---|---|---|---|')
for r in rows: print('| %s | %s | %s | %s | %s |' % r)
print('\n%d seeds; of the %d evaluated against the checks as they stood at the start of the session, %d were detected; %d of %d detected as committed' % (len(rows), sum(1 for r in rows if not r[2].startswith('not run')), sum(1 for r in rows if r[2].startswith('yes')), sum(1 for r in rows if r[3].startswith('yes')), len(rows)))
