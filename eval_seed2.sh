#!/bin/bash
# usage: eval_seed2.sh <patch.diff> <prop> <harness-regex-for-stage-1>
# Stage 1: the harnesses of <prop> matching the regex (a subset of the registered quick check: a violation there fails the
# whole check). Stage 2 (only if stage 1 is silent): the complete quick check of <prop>.
p="$1"; prop="$2"; re="$3"
wt=$(mktemp -d /tmp/seedeval.XXXXXX); rmdir $wt
git -C /repo worktree add -q --detach $wt HEAD || exit 3
trap 'git -C /repo worktree remove --force $wt >/dev/null 2>&1' EXIT
( cd $wt && git apply "$p" ) || { echo "cannot apply $p"; exit 3; }
tag=$(echo $p | sed 's|/tmp/seed/||; s|/patch.diff||; s|/|_|g')
cd /verif
VERIF_BUDGET_S=300 timeout 1500 ./check $prop -no-evidence -repo $wt -harness "$re" > /tmp/evalseed_${tag}_$prop.s1.out 2>&1; rc=$?
stage="subset($re)"
if [ $rc -ne 1 ]; then
  VERIF_BUDGET_S=300 timeout 2400 ./check $prop -no-evidence -repo $wt > /tmp/evalseed_${tag}_$prop.out 2>&1; rc=$?
  stage="full"
  f=/tmp/evalseed_${tag}_$prop.out
else
  f=/tmp/evalseed_${tag}_$prop.s1.out
fi
v=$(grep -m1 -A1 '^VIOLATION' $f | tail -1 | sed 's/^ *//' | cut -c1-120)
echo "$tag => [$prop rc=$rc $v] via $stage"
