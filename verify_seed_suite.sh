#!/bin/bash
# usage: verify_seed_suite.sh <seed dir> [store]  — existing test suite with the seeded change applied (scratch worktree).
# Without "store" the slow ./ddsketch/store package is skipped.
seed="$1"; withstore="${2:-}"
export GOFLAGS=-mod=mod GOPROXY=off GOSUMDB=off GOTOOLCHAIN=local
wt=$(mktemp -d /tmp/seedsuite.XXXXXX); rmdir $wt
git -C /repo worktree add -q --detach $wt HEAD || exit 3
trap 'git -C /repo worktree remove --force $wt >/dev/null 2>&1' EXIT
cd $wt && git apply $seed/patch.diff || { echo "$seed APPLY-FAILED"; exit 3; }
pk="./dataset/ ./ddsketch/ ./ddsketch/encoding/ ./ddsketch/mapping/ ./ddsketch/stat/"
[ -n "$withstore" ] && pk="./ddsketch/store/"
go test -vet=off -count=1 -timeout 30m $pk > /tmp/seedsuite.log 2>&1; rc=$?
echo "$seed suite(${withstore:-nonstore}) exit=$rc $(grep -c '^ok' /tmp/seedsuite.log) ok $(grep -c '^FAIL\|^---' /tmp/seedsuite.log) fail"
