#!/bin/bash
# usage: verify_seed.sh <seed dir (…/SEED/n)> <demo target dir relative to repo> [full]
# Confirms in a scratch worktree (outside /repo and /verif): patch applies, builds, demo fails with it and passes without;
# with "full" also runs the existing tests of the touched packages with the patch applied.
set -u
seed="$1"; demodir="$2"; full="${3:-}"
export GOFLAGS=-mod=mod GOPROXY=off GOSUMDB=off GOTOOLCHAIN=local
wt=$(mktemp -d /tmp/seedchk.XXXXXX); rmdir $wt
git -C /repo worktree add -q --detach $wt HEAD || exit 3
trap 'git -C /repo worktree remove --force $wt >/dev/null 2>&1' EXIT
cd $wt
demo=$(ls $seed/*_test.go | head -1)
cp $demo $demodir/zz_seed_demo_test.go
go test -vet=off -count=1 ./$demodir/ -run "$(grep -oE 'func (Test[A-Za-z0-9_]+)' $demo | awk '{print $2}' | paste -sd'|')" > /tmp/seed_without.log 2>&1; rc_without=$?
git apply $seed/patch.diff || { echo "APPLY-FAILED"; exit 3; }
go build ./... > /tmp/seed_build.log 2>&1; rc_build=$?
go test -vet=off -count=1 ./$demodir/ -run "$(grep -oE 'func (Test[A-Za-z0-9_]+)' $demo | awk '{print $2}' | paste -sd'|')" > /tmp/seed_with.log 2>&1; rc_with=$?
res="build=$rc_build demo_without=$rc_without demo_with=$rc_with"
if [ -n "$full" ]; then
  rm $demodir/zz_seed_demo_test.go
  pkgs=$(git diff --name-only | xargs -n1 dirname | sort -u | sed 's|^|./|' | paste -sd' ')
  go test -vet=off -count=1 $pkgs > /tmp/seed_suite.log 2>&1; res="$res suite($pkgs)=$?"
fi
echo "$seed: $res"
