package main

// Solver processes: one live `z3 -in` per worker (push/pop per path and per query), plus one-shot
// escalation to z3 / z3-new / cvc5 with the complete script of the path.

import (
	"bufio"
	"fmt"
	"io"
	"math"
	"os"
	"os/exec"
	"strconv"
	"strings"
	"sync/atomic"
	"syscall"
	"time"
)

type Verdict int

const (
	Unsat Verdict = iota
	Sat
	Unknown
)

func (v Verdict) String() string { return [...]string{"unsat", "sat", "unknown"}[v] }

type Proc struct {
	kind string
	cmd  *exec.Cmd
	in   io.WriteCloser
	out  *bufio.Reader
	seq  int
	dead bool
	trace *os.File
}

func startProc(kind string, timeoutMs int) (*Proc, error) {
	var cmd *exec.Cmd
	switch kind {
	case "z3":
		if os.Getenv("VERIF_Z3_NOTIMER") != "" {
			cmd = exec.Command("z3", "-in")
		} else {
			cmd = exec.Command("z3", "-in", fmt.Sprintf("-t:%d", timeoutMs))
		}
	case "z3-new":
		cmd = exec.Command("z3-new", "-in", fmt.Sprintf("-t:%d", timeoutMs))
	case "cvc5":
		cmd = exec.Command("cvc5", "--incremental", "--fp-exp", "--produce-models", fmt.Sprintf("--tlimit-per=%d", timeoutMs), "--lang=smt2")
	default:
		return nil, fmt.Errorf("unknown solver %s", kind)
	}
	in, err := cmd.StdinPipe()
	if err != nil {
		return nil, err
	}
	outp, err := cmd.StdoutPipe()
	if err != nil {
		return nil, err
	}
	cmd.Stderr = cmd.Stdout
	cmd.SysProcAttr = &syscall.SysProcAttr{Pdeathsig: syscall.SIGKILL}
	if err := cmd.Start(); err != nil {
		return nil, err
	}
	p := &Proc{kind: kind, cmd: cmd, in: in, out: bufio.NewReaderSize(outp, 1<<20)}
	if tf := os.Getenv("VERIF_TRACE"); tf != "" {
		p.trace, _ = os.OpenFile(fmt.Sprintf("%s.%d", tf, cmd.Process.Pid), os.O_CREATE|os.O_WRONLY|os.O_TRUNC, 0o644)
	}
	p.send([]string{"(set-option :produce-models true)", "(set-logic ALL)"})
	return p, nil
}

func (p *Proc) send(lines []string) {
	if p.dead {
		return
	}
	var sb strings.Builder
	for _, l := range lines {
		sb.WriteString(l)
		sb.WriteByte('\n')
	}
	if p.trace != nil {
		p.trace.WriteString(sb.String())
	}
	if _, err := io.WriteString(p.in, sb.String()); err != nil {
		p.dead = true
	}
}

// roundtrip sends lines and returns all output up to a sync marker.
func (p *Proc) roundtrip(lines []string) (string, error) {
	if p.dead {
		return "", fmt.Errorf("solver dead")
	}
	p.seq++
	marker := fmt.Sprintf("<<sync-%d>>", p.seq)
	p.send(append(lines, fmt.Sprintf("(echo \"%s\")", marker)))
	var sb strings.Builder
	for {
		line, err := p.out.ReadString('\n')
		if err != nil {
			p.dead = true
			return sb.String(), fmt.Errorf("solver %s died: %v (%s)", p.kind, err, sb.String())
		}
		if strings.Contains(line, marker) {
			break
		}
		sb.WriteString(line)
	}
	return sb.String(), nil
}

func (p *Proc) close() {
	if p.cmd != nil && p.cmd.Process != nil {
		p.in.Close()
		p.cmd.Process.Kill()
		p.cmd.Wait()
	}
	p.dead = true
}

var (
	statQueries   [3]int64 // by verdict
	statSolverNs  int64
	statEscalated int64
	statErrors    int64
	statBySolver  = map[string]*int64{"z3": new(int64), "z3-new": new(int64), "cvc5": new(int64)}
)

func parseVerdict(out string) (Verdict, bool) {
	hasErr := strings.Contains(out, "(error")
	for _, l := range strings.Split(out, "\n") {
		l = strings.TrimSpace(l)
		switch l {
		case "sat":
			return Sat, hasErr
		case "unsat":
			return Unsat, hasErr
		case "unknown", "timeout":
			return Unknown, hasErr
		}
	}
	return Unknown, true
}

// ---------- s-expression parsing of (get-value ...) output ----------

type sx_ struct {
	atom string
	list []*sx_
}

func parseSexps(s string) []*sx_ {
	var toks []string
	i := 0
	for i < len(s) {
		c := s[i]
		switch {
		case c == '(' || c == ')':
			toks = append(toks, string(c))
			i++
		case c == ' ' || c == '\n' || c == '\t' || c == '\r':
			i++
		case c == '|':
			j := strings.IndexByte(s[i+1:], '|')
			if j < 0 {
				j = len(s) - i - 1
			}
			toks = append(toks, s[i+1:i+1+j])
			i += j + 2
		case c == '"':
			j := strings.IndexByte(s[i+1:], '"')
			if j < 0 {
				j = len(s) - i - 1
			}
			toks = append(toks, s[i:i+j+2])
			i += j + 2
		default:
			j := i
			for j < len(s) && !strings.ContainsRune("() \n\t\r", rune(s[j])) {
				j++
			}
			toks = append(toks, s[i:j])
			i = j
		}
	}
	pos := 0
	var parse func() *sx_
	parse = func() *sx_ {
		if pos >= len(toks) {
			return nil
		}
		t := toks[pos]
		pos++
		if t == "(" {
			n := &sx_{list: []*sx_{}}
			for pos < len(toks) && toks[pos] != ")" {
				n.list = append(n.list, parse())
			}
			pos++
			return n
		}
		return &sx_{atom: t}
	}
	var res []*sx_
	for pos < len(toks) {
		if toks[pos] == ")" {
			pos++
			continue
		}
		res = append(res, parse())
	}
	return res
}

func bvAtom(a string) (uint64, int, bool) {
	if strings.HasPrefix(a, "#x") {
		v, err := strconv.ParseUint(a[2:], 16, 64)
		return v, 4 * (len(a) - 2), err == nil
	}
	if strings.HasPrefix(a, "#b") {
		v, err := strconv.ParseUint(a[2:], 2, 64)
		return v, len(a) - 2, err == nil
	}
	return 0, 0, false
}

// valueBits decodes an SMT value s-expression into 64 raw bits.
func valueBits(v *sx_) (uint64, bool) {
	if v == nil {
		return 0, false
	}
	if v.list == nil {
		switch v.atom {
		case "true":
			return 1, true
		case "false":
			return 0, true
		}
		if b, _, ok := bvAtom(v.atom); ok {
			return b, true
		}
		if n, err := strconv.ParseInt(v.atom, 10, 64); err == nil {
			return uint64(n), true
		}
		return 0, false
	}
	l := v.list
	if len(l) == 2 && l[0].atom == "-" {
		n, ok := valueBits(l[1])
		return uint64(-int64(n)), ok
	}
	if len(l) == 4 && l[0].atom == "fp" {
		s, _, ok1 := bvAtom(l[1].atom)
		e, _, ok2 := bvAtom(l[2].atom)
		m, _, ok3 := bvAtom(l[3].atom)
		return s<<63 | e<<52 | m, ok1 && ok2 && ok3
	}
	if len(l) == 4 && l[0].atom == "_" {
		switch l[1].atom {
		case "+zero":
			return 0, true
		case "-zero":
			return 1 << 63, true
		case "+oo":
			return math.Float64bits(math.Inf(1)), true
		case "-oo":
			return math.Float64bits(math.Inf(-1)), true
		case "NaN":
			return 0x7ff8000000000001, true
		}
	}
	if len(l) == 3 && l[0].atom == "_" && strings.HasPrefix(l[1].atom, "bv") {
		n, err := strconv.ParseUint(l[1].atom[2:], 10, 64)
		return n, err == nil
	}
	return 0, false
}

func parseModel(out string, into Model) bool {
	ok := true
	for _, top := range parseSexps(out) {
		if top.list == nil {
			continue
		}
		for _, pair := range top.list {
			if pair.list == nil || len(pair.list) != 2 {
				continue
			}
			name := pair.list[0].atom
			if b, good := valueBits(pair.list[1]); good {
				into[name] = b
			} else {
				ok = false
			}
		}
	}
	return ok
}

// one-shot run of a complete script on a given solver binary
func oneShot(kind string, script []string, timeout time.Duration, wantModel []string) (Verdict, string, time.Duration) {
	f, err := os.CreateTemp("", "gosym-*.smt2")
	if err != nil {
		return Unknown, err.Error(), 0
	}
	defer os.Remove(f.Name())
	w := bufio.NewWriter(f)
	fmt.Fprintln(w, "(set-option :produce-models true)")
	fmt.Fprintln(w, "(set-logic ALL)")
	for _, l := range script {
		fmt.Fprintln(w, l)
	}
	fmt.Fprintln(w, "(check-sat)")
	if len(wantModel) > 0 {
		fmt.Fprintf(w, "(get-value (%s))\n", strings.Join(wantModel, " "))
	}
	w.Flush()
	f.Close()
	var cmd *exec.Cmd
	secs := int(timeout.Seconds())
	if secs < 1 {
		secs = 1
	}
	switch kind {
	case "z3", "z3-new":
		cmd = exec.Command(kind, fmt.Sprintf("-T:%d", secs), f.Name())
	case "cvc5":
		cmd = exec.Command("cvc5", "--fp-exp", "--produce-models", fmt.Sprintf("--tlimit=%d", secs*1000), f.Name())
	}
	t0 := time.Now()
	outb, _ := cmd.CombinedOutput()
	d := time.Since(t0)
	atomic.AddInt64(statBySolver[kind], 1)
	return verdictOf(string(outb)), string(outb), d
}

func verdictOf(out string) Verdict {
	v, bad := parseVerdict(out)
	if bad && v != Sat {
		// an (error line next to unsat is inconclusive; next to sat the model is replayed anyway
		if strings.Contains(out, "(error") {
			atomic.AddInt64(&statErrors, 1)
			// get-value after unsat produces an error line in one-shot mode: tolerate exactly that
			if v == Unsat && onlyModelErrors(out) {
				return Unsat
			}
			return Unknown
		}
	}
	return v
}

func onlyModelErrors(out string) bool {
	for _, l := range strings.Split(out, "\n") {
		if strings.Contains(l, "(error") {
			if !(strings.Contains(l, "model is not available") || strings.Contains(l, "Cannot get value") || strings.Contains(l, "cannot get value") || strings.Contains(l, "unless after a SAT")) {
				return false
			}
		}
	}
	return true
}

func incrementalSolver() string {
	if s := os.Getenv("VERIF_SOLVER"); s != "" {
		return s
	}
	return "z3-new"
}
