package main

import (
	"fmt"
	"go/types"

	"golang.org/x/tools/go/ssa"
)

// Value is one of: *Term (every scalar), StrV, *StructV, *ArrayV, PtrV, SliceV, IfaceV, FuncV,
// MapV, ChanV, TupleV, *IterV.
type Value interface{}

type StrV string

type StructV struct{ f []Value } // immutable
type ArrayV struct{ e []Value }  // immutable

type Obj struct {
	id   int
	val  Value
	name string
}

type Sel struct {
	field int
	idx   *Term // non-nil: array element selector (BV64)
}

type PtrV struct {
	obj  *Obj // nil: nil pointer
	path []Sel
}

type SliceV struct {
	base          PtrV // points at an *ArrayV ; base.obj == nil: nil slice
	off, len, cap *Term // BV64
}

type IfaceV struct {
	typ types.Type // nil: nil interface
	val Value
}

type FuncV struct {
	fn      *ssa.Function
	binds   []Value
	builtin *ssa.Builtin
}

type mapEntry struct {
	k, v Value
	id   int
	dead bool
}
type MapObj struct {
	id      int
	entries []*mapEntry
	nextID  int
}
type MapV struct{ m *MapObj }

type ChanObj struct {
	id     int
	buf    []Value
	closed bool
}
type ChanV struct{ c *ChanObj }

type TupleV []Value

type IterV struct {
	m     *MapObj
	order []*mapEntry
	pos   int
}

func (p PtrV) String() string {
	if p.obj == nil {
		return "nil"
	}
	return fmt.Sprintf("&obj%d%v", p.obj.id, p.path)
}

func isNilValue(v Value) (bool, bool) {
	switch x := v.(type) {
	case PtrV:
		return x.obj == nil, true
	case SliceV:
		return x.base.obj == nil, true
	case IfaceV:
		return x.typ == nil, true
	case FuncV:
		return x.fn == nil && x.builtin == nil, true
	case MapV:
		return x.m == nil, true
	case ChanV:
		return x.c == nil, true
	}
	return false, false
}
