package main

// Linear normal form for dyadic / mathematical-integer terms.
//   OpDyLin: value (in units of 2^-scale) = k + Σ coefs[i] * m(args[i])
// where m(atom) is the atom's integer part in the atom's own scale (coefs absorb the scale factor),
// atoms are non-linear Dy terms (variables, ite, div, mod), sorted by id, coefficients non-zero.
// Sums, differences, negation and scaling by constants stay in this form, so base-relative index
// arithmetic such as (b+3)-(b+1) folds to a constant and equal sums are the same hash-consed term.

import (
	"math"
	"math/big"
	"sort"
)

type lin struct {
	k     *big.Int
	atoms []*Term
	coefs []*big.Int
}

func (ts *TermStore) linOf(t *Term) lin {
	switch t.op {
	case OpConst:
		return lin{k: dyConstBig(t)}
	case OpDyLin:
		k, _ := new(big.Int).SetString(t.name, 10)
		cs := make([]*big.Int, len(t.coefs))
		for i, c := range t.coefs {
			cs[i], _ = new(big.Int).SetString(c, 10)
		}
		return lin{k: k, atoms: t.args, coefs: cs}
	}
	return lin{k: big.NewInt(0), atoms: []*Term{t}, coefs: []*big.Int{big.NewInt(1)}}
}

func (l lin) scaled(f *big.Int) lin {
	if f.Cmp(big.NewInt(1)) == 0 {
		return l
	}
	r := lin{k: new(big.Int).Mul(l.k, f), atoms: l.atoms, coefs: make([]*big.Int, len(l.coefs))}
	for i, c := range l.coefs {
		r.coefs[i] = new(big.Int).Mul(c, f)
	}
	return r
}

func linAdd(a, b lin) lin {
	r := lin{k: new(big.Int).Add(a.k, b.k)}
	i, j := 0, 0
	for i < len(a.atoms) || j < len(b.atoms) {
		switch {
		case j >= len(b.atoms) || (i < len(a.atoms) && a.atoms[i].id < b.atoms[j].id):
			r.atoms = append(r.atoms, a.atoms[i])
			r.coefs = append(r.coefs, a.coefs[i])
			i++
		case i >= len(a.atoms) || b.atoms[j].id < a.atoms[i].id:
			r.atoms = append(r.atoms, b.atoms[j])
			r.coefs = append(r.coefs, b.coefs[j])
			j++
		default:
			c := new(big.Int).Add(a.coefs[i], b.coefs[j])
			if c.Sign() != 0 {
				r.atoms = append(r.atoms, a.atoms[i])
				r.coefs = append(r.coefs, c)
			}
			i++
			j++
		}
	}
	return r
}

func bigAbsF(b *big.Int) float64 {
	f, _ := new(big.Float).SetInt(new(big.Int).Abs(b)).Float64()
	return f
}

// mkLin builds the canonical term for l at the given scale.
func (ts *TermStore) mkLin(l lin, scale int, bnd float64) *Term {
	if len(l.atoms) == 0 {
		return ts.intern(&Term{op: OpConst, sort: SDy, name: l.k.String(), scale: scale, bnd: bigAbsF(l.k)})
	}
	if len(l.atoms) == 1 && l.k.Sign() == 0 && l.coefs[0].Cmp(big.NewInt(1)) == 0 && l.atoms[0].scale == scale {
		return l.atoms[0]
	}
	// keep atoms sorted (linAdd preserves order; single-atom inputs are trivially sorted)
	if !sort.SliceIsSorted(l.atoms, func(i, j int) bool { return l.atoms[i].id < l.atoms[j].id }) {
		idx := make([]int, len(l.atoms))
		for i := range idx {
			idx[i] = i
		}
		sort.Slice(idx, func(i, j int) bool { return l.atoms[idx[i]].id < l.atoms[idx[j]].id })
		na, nc := make([]*Term, len(idx)), make([]*big.Int, len(idx))
		for i, j := range idx {
			na[i], nc[i] = l.atoms[j], l.coefs[j]
		}
		l.atoms, l.coefs = na, nc
	}
	cs := make([]string, len(l.coefs))
	// a tighter bound than the caller's may follow from the form itself
	fb := bigAbsF(l.k)
	for i, c := range l.coefs {
		cs[i] = c.String()
		fb += bigAbsF(c) * l.atoms[i].bnd
	}
	if fb < bnd {
		bnd = fb
	}
	t := &Term{op: OpDyLin, sort: SDy, args: l.atoms, coefs: cs, name: l.k.String(), scale: scale, bnd: bnd}
	return ts.intern(t)
}

func pow2(n int) *big.Int { return new(big.Int).Lsh(big.NewInt(1), uint(n)) }

// linAt returns the linear form of t expressed at scale g (g >= t.scale).
func (ts *TermStore) linAt(t *Term, g int) lin {
	l := ts.linOf(t)
	if t.op == OpDyLin || t.op == OpConst {
		return l.scaled(pow2(g - t.scale))
	}
	// single atom: coefficient carries the scale factor
	return lin{k: big.NewInt(0), atoms: []*Term{t}, coefs: []*big.Int{pow2(g - t.scale)}}
}

func (ts *TermStore) dyAddLin(a, b *Term, negB bool) *Term {
	g := a.scale
	if b.scale > g {
		g = b.scale
	}
	la, lb := ts.linAt(a, g), ts.linAt(b, g)
	if negB {
		lb = lb.scaled(big.NewInt(-1))
	}
	bnd := a.bnd*math.Ldexp(1, g-a.scale) + b.bnd*math.Ldexp(1, g-b.scale)
	r := ts.mkLin(linAdd(la, lb), g, bnd)
	if r.bnd >= dyLimit {
		unsup("dyadic exactness bound exceeded in +/- (%g)", r.bnd)
	}
	return r
}
