package main

// Harness intrinsics (zzv*) and the stubs for library functions that cannot be executed from SSA.
// Every stub is listed in the evidence of the checks that reached it.

import (
	"fmt"
	"math"
)

type stubFn func(in *Interp, args []Value) Value

var intrinsics map[string]stubFn
var stubs map[string]stubFn
var stubDoc = map[string]string{}

func str(v Value) string { return string(v.(StrV)) }

func cInt(in *Interp, v Value, what string) int64 {
	t := v.(*Term)
	if !t.IsConst() {
		unsup("intrinsic argument %s must be concrete", what)
	}
	return t.S64()
}

func (in *Interp) usedStub(name string) {
	in.p.run.mu.Lock()
	in.p.run.Assumptions["stub: "+name+" — "+stubDoc[name]] = true
	in.p.run.mu.Unlock()
}

func init() {
	intrinsics = map[string]stubFn{
		"zzvInt":    func(in *Interp, a []Value) Value { return in.p.Fresh(str(a[0]), SBV64, "i64") },
		"zzvInt64":  func(in *Interp, a []Value) Value { return in.p.Fresh(str(a[0]), SBV64, "i64") },
		"zzvUint64": func(in *Interp, a []Value) Value { return in.p.Fresh(str(a[0]), SBV64, "u64") },
		"zzvInt32":  func(in *Interp, a []Value) Value { return in.p.Fresh(str(a[0]), SBV32, "i32") },
		"zzvUint32": func(in *Interp, a []Value) Value { return in.p.Fresh(str(a[0]), SBV32, "u32") },
		"zzvByte":   func(in *Interp, a []Value) Value { return in.p.Fresh(str(a[0]), SBV8, "u8") },
		"zzvBool":   func(in *Interp, a []Value) Value { return in.p.Fresh(str(a[0]), SBool, "bool") },
		"zzvFloat64": func(in *Interp, a []Value) Value {
			return in.ts.FFromBits(in.p.Fresh(str(a[0]), SBV64, "f64bits"))
		},
		"zzvDyadic": func(in *Interp, a []Value) Value {
			name := str(a[0])
			scale := int(cInt(in, a[1], "scale"))
			lo, hi := cInt(in, a[2], "lo"), cInt(in, a[3], "hi")
			k := in.p.symCount[name]
			in.p.symCount[name]++
			full := fmt.Sprintf("%s#%d", name, k)
			bnd := math.Max(math.Abs(float64(lo)), math.Abs(float64(hi)))
			t := in.ts.DyVar(full, scale, bnd)
			in.p.inputs = append(in.p.inputs, inputRec{name: full, kind: fmt.Sprintf("dy%d", scale), term: t})
			loT := in.ts.intern(&Term{op: OpConst, sort: SDy, name: fmt.Sprint(lo), scale: scale, bnd: math.Abs(float64(lo))})
			hiT := in.ts.intern(&Term{op: OpConst, sort: SDy, name: fmt.Sprint(hi), scale: scale, bnd: math.Abs(float64(hi))})
			in.p.Assume(in.ts.And(in.ts.FLe(loT, t), in.ts.FLe(t, hiT)))
			return t
		},
		"zzvMInt": func(in *Interp, a []Value) Value {
			name := str(a[0])
			lo, hi := cInt(in, a[1], "lo"), cInt(in, a[2], "hi")
			if lo == hi {
				return in.ts.BV(64, uint64(lo))
			}
			k := in.p.symCount[name]
			in.p.symCount[name]++
			full := fmt.Sprintf("%s#%d", name, k)
			bnd := math.Max(math.Abs(float64(lo)), math.Abs(float64(hi)))
			t := in.ts.DyVar(full, 0, bnd)
			in.p.inputs = append(in.p.inputs, inputRec{name: full, kind: "mi", term: t})
			in.p.Assume(in.ts.And(in.ts.SLe(in.ts.BV(64, uint64(lo)), t), in.ts.SLe(t, in.ts.BV(64, uint64(hi)))))
			return t
		},
		"zzvNarrow": func(in *Interp, a []Value) Value {
			// y := x with a proven range: the obligation lo <= x <= hi is checked, then x is renamed to a
			// fresh mathematical integer carrying the tight magnitude bound
			x := a[0].(*Term)
			lo, hi := cInt(in, a[1], "lo"), cInt(in, a[2], "hi")
			if x.IsConst() {
				return x
			}
			rng := in.ts.And(in.ts.SLe(in.ts.BV(64, uint64(lo)), x), in.ts.SLe(x, in.ts.BV(64, uint64(hi))))
			in.p.Check("narrow-in-range", rng, in.where(), false)
			k := in.p.symCount["narrow"]
			in.p.symCount["narrow"]++
			y := in.ts.DyVar(fmt.Sprintf("narrow#%d", k), 0, math.Max(math.Abs(float64(lo)), math.Abs(float64(hi))))
			in.p.Assume(in.ts.Eq(y, x))
			return y
		},
		"zzvIntIn": func(in *Interp, a []Value) Value {
			lo, hi := a[1].(*Term), a[2].(*Term)
			if lo.IsConst() && hi.IsConst() && lo.S64() == hi.S64() {
				return lo
			}
			t := in.p.Fresh(str(a[0]), SBV64, "i64")
			in.p.Assume(in.ts.And(in.ts.SLe(lo, t), in.ts.SLe(t, hi)))
			return t
		},
		"zzvChoose": func(in *Interp, a []Value) Value {
			name := str(a[0])
			n := int(cInt(in, a[1], "n"))
			k := in.p.symCount[name]
			in.p.symCount[name]++
			full := fmt.Sprintf("%s#%d", name, k)
			c := in.p.Choose(n)
			in.p.inputs = append(in.p.inputs, inputRec{name: full, kind: "choose", val: uint64(c)})
			return in.ts.BV(64, uint64(c))
		},
		"zzvBytes": func(in *Interp, a []Value) Value {
			name := str(a[0])
			n := uint64(cInt(in, a[1], "n"))
			e := make([]Value, n)
			for i := range e {
				e[i] = in.p.Fresh(fmt.Sprintf("%s[%d]", name, i), SBV8, "u8")
			}
			o := in.newObj(&ArrayV{e}, name)
			nn := in.ts.BV(64, n)
			return SliceV{base: PtrV{obj: o}, off: in.ts.BV(64, 0), len: nn, cap: nn}
		},
		"zzvAssume": func(in *Interp, a []Value) Value { in.p.Assume(a[0].(*Term)); return nil },
		"zzvAssert": func(in *Interp, a []Value) Value {
			in.p.Check(str(a[0]), a[1].(*Term), in.where(), false)
			return nil
		},
		"zzvCover": func(in *Interp, a []Value) Value {
			if !in.p.replaying() {
				in.p.run.mu.Lock()
				in.p.run.Covers[str(a[0])]++
				in.p.run.mu.Unlock()
			}
			return nil
		},
		"zzvKnown": func(in *Interp, a []Value) Value {
			id := str(a[0])
			if in.p.cfg.KnownOpen[id] {
				in.p.known = append(in.p.known, id)
			}
			return nil
		},
		"zzvAnd":     func(in *Interp, a []Value) Value { return in.ts.And(a[0].(*Term), a[1].(*Term)) },
		"zzvOr":      func(in *Interp, a []Value) Value { return in.ts.Or(a[0].(*Term), a[1].(*Term)) },
		"zzvImplies": func(in *Interp, a []Value) Value { return in.ts.Implies(a[0].(*Term), a[1].(*Term)) },
		"zzvIteInt": func(in *Interp, a []Value) Value {
			return in.ts.Ite(a[0].(*Term), a[1].(*Term), a[2].(*Term))
		},
		"zzvIteF64": func(in *Interp, a []Value) Value {
			return in.ts.Ite(a[0].(*Term), a[1].(*Term), a[2].(*Term))
		},
		"zzvUnwind":    func(in *Interp, a []Value) Value { in.p.unwind = int(cInt(in, a[0], "n")); return nil },
		"zzvMapOrders": func(in *Interp, a []Value) Value { in.p.mapMode = int(cInt(in, a[0], "mode")); return nil },
		"zzvMapOrderFixed": func(in *Interp, a []Value) Value {
			in.p.mapFixed = a[0].(*Term).Bool()
			return nil
		},
		"zzvExactFloatsOnly": func(in *Interp, a []Value) Value {
			// keep constant selections such as ite(c,1.0,0.0) in exact IEEE arithmetic (no dyadic promotion)
			in.ts.noPromote = true
			return nil
		},
		"zzvAbstractMulDiv": func(in *Interp, a []Value) Value {
			in.p.absFP = true
			return nil
		},
		"zzvHintInt": func(in *Interp, a []Value) Value {
			// candidate for the proven decode(encode(x)) simplification (sound: only used after a proof)
			if t := a[0].(*Term); !t.IsConst() {
				in.encoded["varint"] = append(in.encoded["varint"], t)
			}
			return nil
		},
		"zzvHintUint": func(in *Interp, a []Value) Value {
			if t := a[0].(*Term); !t.IsConst() {
				in.encoded["uvarint"] = append(in.encoded["uvarint"], t)
			}
			return nil
		},
		"zzvSolverSeconds": func(in *Interp, a []Value) Value {
			// per-query cap for the one-shot (cvc5 / z3) runs of this harness: float kernels need minutes
			n := int(cInt(in, a[0], "seconds"))
			if n > in.p.cfg.EscalateSec {
				in.p.cfg.EscalateSec = n
			}
			return nil
		},
		"zzvDisjoint": func(in *Interp, a []Value) Value {
			// structural heap disjointness: no mutable object (slice backing array with capacity, map,
			// pointee) is reachable from both arguments. Exact, from the engine's concrete object graph.
			ra, rb := map[interface{}]bool{}, map[interface{}]bool{}
			in.reach(a[0], ra)
			in.reach(a[1], rb)
			for k := range ra {
				if rb[k] {
					return in.ts.BoolC(false)
				}
			}
			return in.ts.BoolC(true)
		},
		"zzvExpOf": func(in *Interp, a []Value) Value {
			// a positive finite v with math.Log(v) == l, math.Log being the uninterpreted function the stub
			// uses (natively: v = math.Exp(l), so that a counterexample in terms of l replays)
			l := a[0].(*Term)
			v := in.ts.FFromBits(in.p.Fresh("expof", SBV64, "f64bits"))
			in.p.Assume(in.ts.And(in.ts.FLt(in.ts.F64C(0), v), in.ts.FLt(v, in.ts.F64C(math.Inf(1)))))
			in.p.Assume(in.ts.FEq(in.ts.UF("math.Log", SF64, v), l))
			return v
		},
		"zzvBound": func(in *Interp, a []Value) Value {
			in.p.run.mu.Lock()
			in.p.run.Bounds[str(a[0])] = str(a[1])
			in.p.run.mu.Unlock()
			return nil
		},
		"zzvAssumption": func(in *Interp, a []Value) Value {
			in.p.run.mu.Lock()
			in.p.run.Assumptions[str(a[0])] = true
			in.p.run.mu.Unlock()
			return nil
		},
		"zzvSameBits": func(in *Interp, a []Value) Value {
			// bit-identity of two float64 values, treating all NaNs as one value
			x, y := a[0].(*Term), a[1].(*Term)
			if x.sort == SDy || y.sort == SDy {
				return in.ts.FEq(x, y)
			}
			bothNaN := in.ts.And(in.ts.FIsNaN(x), in.ts.FIsNaN(y))
			return in.ts.Or(bothNaN, in.ts.Eq(in.ts.FBits(x), in.ts.FBits(y)))
		},
		// uninterpreted functions (deterministic, otherwise unconstrained)
		"zzvUFIntInt": func(in *Interp, a []Value) Value {
			return in.ts.UF(str(a[0]), SBV64, a[1].(*Term))
		},
		"zzvUFIntF64": func(in *Interp, a []Value) Value {
			return in.ts.UF(str(a[0]), SF64, a[1].(*Term))
		},
		"zzvUFF64F64": func(in *Interp, a []Value) Value {
			return in.ts.UF(str(a[0]), SF64, a[1].(*Term))
		},
		"zzvUFF64MInt": func(in *Interp, a []Value) Value {
			lo, hi := cInt(in, a[2], "lo"), cInt(in, a[3], "hi")
			t := in.ts.intern(&Term{op: OpUF, sort: SDy, name: str(a[0]), args: []*Term{a[1].(*Term)}, scale: 0, bnd: math.Max(math.Abs(float64(lo)), math.Abs(float64(hi)))})
			in.p.Assume(in.ts.And(in.ts.SLe(in.ts.BV(64, uint64(lo)), t), in.ts.SLe(t, in.ts.BV(64, uint64(hi)))))
			return t
		},
		"zzvUFF64Int": func(in *Interp, a []Value) Value {
			return in.ts.UF(str(a[0]), SBV64, a[1].(*Term))
		},
	}

	stubs = map[string]stubFn{}
	def := func(name, doc string, f stubFn) {
		stubDoc[name] = doc
		stubs[name] = func(in *Interp, a []Value) Value {
			if !in.initing {
				in.usedStub(name)
			}
			return f(in, a)
		}
	}
	def("math.Float64bits", "exact bit cast (NaN payload unconstrained for computed NaNs)", func(in *Interp, a []Value) Value {
		return in.ts.FBits(a[0].(*Term))
	})
	def("math.Float64frombits", "exact bit cast", func(in *Interp, a []Value) Value {
		return in.ts.FFromBits(a[0].(*Term))
	})
	def("math.IsNaN", "SMT fp.isNaN", func(in *Interp, a []Value) Value { return in.ts.FIsNaN(a[0].(*Term)) })
	def("math.IsInf", "SMT fp.isInfinite with sign", func(in *Interp, a []Value) Value {
		ts := in.ts
		x := a[0].(*Term)
		sign := cInt(in, a[1], "IsInf sign")
		inf := ts.FIsInf(x)
		switch {
		case sign > 0:
			return ts.And(inf, ts.FLt(ts.F64C(0), x))
		case sign < 0:
			return ts.And(inf, ts.FLt(x, ts.F64C(0)))
		}
		return inf
	})
	def("math.Abs", "SMT fp.abs", func(in *Interp, a []Value) Value {
		x := a[0].(*Term)
		if x.sort == SDy {
			return in.ts.Ite(in.ts.FLt(x, in.ts.F64C(0)), in.ts.FNeg(x), x)
		}
		return in.ts.funary(OpFAbs, x)
	})
	def("math.Floor", "SMT fp.roundToIntegral RTN", func(in *Interp, a []Value) Value { return in.ts.funary(OpFFloor, a[0].(*Term)) })
	def("math.Ceil", "SMT fp.roundToIntegral RTP", func(in *Interp, a []Value) Value { return in.ts.funary(OpFCeil, a[0].(*Term)) })
	def("math.Trunc", "SMT fp.roundToIntegral RTZ", func(in *Interp, a []Value) Value { return in.ts.funary(OpFTrunc, a[0].(*Term)) })
	def("math.Sqrt", "SMT fp.sqrt RNE", func(in *Interp, a []Value) Value { return in.ts.funary(OpFSqrt, a[0].(*Term)) })
	def("math.Max", "Go's math.Max special cases spelled out (±Inf, NaN, ±0)", func(in *Interp, a []Value) Value {
		return in.mathMaxMin(a[0].(*Term), a[1].(*Term), true)
	})
	def("math.Min", "Go's math.Min special cases spelled out (±Inf, NaN, ±0)", func(in *Interp, a []Value) Value {
		return in.mathMaxMin(a[0].(*Term), a[1].(*Term), false)
	})
	transc := func(name string, f func(float64) float64) {
		def("math."+name, "native on concrete arguments; deterministic uninterpreted function on symbolic arguments", func(in *Interp, a []Value) Value {
			x := a[0].(*Term)
			if x.IsConst() && x.sort == SF64 {
				return in.ts.F64C(f(x.F64()))
			}
			if x.sort == SDy {
				unsup("math.%s of a dyadic value", name)
			}
			return in.ts.UF("math."+name, SF64, x)
		})
	}
	transc("Log", math.Log)
	transc("Log2", math.Log2)
	transc("Exp", math.Exp)
	transc("Exp2", math.Exp2)
	transc("Cbrt", math.Cbrt)
	transc("Log1p", math.Log1p)
	def("math.Pow", "native on concrete arguments; deterministic uninterpreted function on symbolic arguments", func(in *Interp, a []Value) Value {
		x, y := a[0].(*Term), a[1].(*Term)
		if x.IsConst() && y.IsConst() && x.sort == SF64 && y.sort == SF64 {
			return in.ts.F64C(math.Pow(x.F64(), y.F64()))
		}
		return in.ts.UF("math.Pow", SF64, x, y)
	})
	def("math/bits.LeadingZeros64", "exact: ite chain over bit positions (validated against the real function by the self-test)", func(in *Interp, a []Value) Value {
		return in.ts.LZ64(a[0].(*Term))
	})
	def("math/bits.TrailingZeros64", "exact: ite chain over bit positions (validated against the real function by the self-test)", func(in *Interp, a []Value) Value {
		return in.ts.TZ64(a[0].(*Term))
	})
	def("math/bits.Len64", "exact: 64 - LeadingZeros64", func(in *Interp, a []Value) Value {
		return in.ts.Sub(in.ts.BV(64, 64), in.ts.LZ64(a[0].(*Term)))
	})
	def("fmt.Sprintf", "opaque string (formatting is not the subject)", func(in *Interp, a []Value) Value { return StrV("<fmt>") })
	def("fmt.Errorf", "fresh error value with identity (formatting is not the subject)", func(in *Interp, a []Value) Value {
		o := in.newObj(&StructV{[]Value{StrV("<fmt.Errorf>")}}, "fmt.Errorf")
		return IfaceV{typ: in.w.errorStringPtrType(), val: PtrV{obj: o}}
	})
	def("sort.Ints", "insertion sort forking on undecided comparisons — any correct sort yields the same sequence of values", func(in *Interp, a []Value) Value {
		in.sortScalars(a[0].(SliceV), func(x, y *Term) *Term { return in.ts.SLt(y, x) })
		return nil
	})
	def("sort.Float64s", "insertion sort forking on undecided comparisons; NaN-free inputs assumed by the harness", func(in *Interp, a []Value) Value {
		in.sortScalars(a[0].(SliceV), func(x, y *Term) *Term { return in.ts.FLt(y, x) })
		return nil
	})
	def("sort.Slice", "the standard library's insertion sort on the real slice, calling the real less closure and forking on its symbolic results; result is a permutation sorted by less", func(in *Interp, a []Value) Value {
		in.sortSlice(a[0].(IfaceV), a[1].(FuncV))
		return nil
	})
}

func (in *Interp) mathMaxMin(x, y *Term, isMax bool) Value {
	ts := in.ts
	if x.sort == SDy || y.sort == SDy {
		// finite, NaN-free, and ±0 indistinguishable in the dyadic abstraction
		if isMax {
			return ts.Ite(ts.FLt(y, x), x, y)
		}
		return ts.Ite(ts.FLt(x, y), x, y)
	}
	if x.IsConst() && y.IsConst() {
		if isMax {
			return ts.F64C(math.Max(x.F64(), y.F64()))
		}
		return ts.F64C(math.Min(x.F64(), y.F64()))
	}
	nan := ts.Or(ts.FIsNaN(x), ts.FIsNaN(y))
	zero := ts.F64C(0)
	bothZero := ts.And(ts.FEq(x, zero), ts.FEq(y, zero))
	xneg := ts.intern(&Term{op: OpFIsNeg, sort: SBool, args: []*Term{x}})
	var pick, zr *Term
	if isMax {
		pick = ts.Ite(ts.FLt(y, x), x, y)
		zr = ts.Ite(xneg, y, x) // Max(-0, y0) = y0 ; Max(+0, y0) = +0
	} else {
		pick = ts.Ite(ts.FLt(x, y), x, y)
		zr = ts.Ite(xneg, x, y) // Min(-0, y0) = -0 ; Min(+0, y0) = y0
	}
	// infinities are handled correctly by the comparison once NaN is excluded
	return ts.Ite(nan, ts.F64C(math.NaN()), ts.Ite(bothZero, zr, pick))
}

// sortScalars sorts a slice of scalar terms in place by insertion sort, forking on every comparison
// whose outcome the path condition does not decide. The elements themselves stay untouched (no ite
// networks), so later reasoning about the multiset of elements is syntactic. Any correct sort yields
// the same sequence of values, so this is a faithful model of sort.Ints / sort.Float64s.
func (in *Interp) sortScalars(s SliceV, swapIf func(x, y *Term) *Term) {
	n := int(in.constU(s.len, "sort length"))
	if n < 2 {
		return
	}
	off := int(in.constU(s.off, "sort offset"))
	arr := in.backing(s)
	e := make([]Value, len(arr.e))
	copy(e, arr.e)
	for i := 1; i < n; i++ {
		for j := i; j > 0; j-- {
			a, b := e[off+j-1].(*Term), e[off+j].(*Term)
			if !in.p.Branch(swapIf(a, b)) { // a > b ?
				break
			}
			e[off+j-1], e[off+j] = b, a
		}
	}
	in.store(s.base, &ArrayV{e})
}

// sortSlice implements sort.Slice(x, less) as the insertion sort of the standard library, calling
// the real less closure on the real slice and forking on its symbolic results.
func (in *Interp) sortSlice(x IfaceV, less FuncV) {
	s, ok := x.val.(SliceV)
	if !ok {
		unsup("sort.Slice on %T", x.val)
	}
	n := int(in.constU(s.len, "sort length"))
	if n < 2 {
		return
	}
	off := int(in.constU(s.off, "sort offset"))
	for i := 1; i < n; i++ {
		for j := i; j > 0; j-- {
			c := in.callFunc(less, []Value{in.ts.BV(64, uint64(j)), in.ts.BV(64, uint64(j-1))}, nil).(*Term)
			if !in.p.Branch(c) {
				break
			}
			arr := in.backing(s)
			e := make([]Value, len(arr.e))
			copy(e, arr.e)
			e[off+j-1], e[off+j] = arr.e[off+j], arr.e[off+j-1]
			in.store(s.base, &ArrayV{e})
		}
	}
}


// reach collects the mutable heap objects reachable from a value.
func (in *Interp) reach(v Value, seen map[interface{}]bool) {
	switch x := v.(type) {
	case PtrV:
		if x.obj != nil && !seen[x.obj] {
			seen[x.obj] = true
			in.reach(x.obj.val, seen)
		}
	case SliceV:
		if x.base.obj != nil {
			if x.cap.IsConst() && x.cap.U64() == 0 {
				return
			}
			if !seen[x.base.obj] {
				seen[x.base.obj] = true
				in.reach(x.base.obj.val, seen)
			}
		}
	case MapV:
		if x.m != nil && !seen[x.m] {
			seen[x.m] = true
			for _, e := range x.m.entries {
				in.reach(e.k, seen)
				in.reach(e.v, seen)
			}
		}
	case IfaceV:
		if x.typ != nil {
			in.reach(x.val, seen)
		}
	case *StructV:
		for _, f := range x.f {
			in.reach(f, seen)
		}
	case *ArrayV:
		for _, e := range x.e {
			if _, isTerm := e.(*Term); isTerm {
				return // scalar array: nothing further to reach
			}
			in.reach(e, seen)
		}
	case FuncV:
		for _, b := range x.binds {
			in.reach(b, seen)
		}
	case ChanV:
		if x.c != nil {
			seen[x.c] = true
		}
	}
}

// ---------- sign/magnitude abstraction of float64 products and quotients ----------
//
// With zzvAbstractMulDiv() a float64 product or quotient of TWO SYMBOLIC operands is not bit-blasted
// (no available solver decides chains of them, DESIGN §2 probes C″/D) but replaced by an application of
// an uninterpreted function constrained by facts that hold for every IEEE-754 round-to-nearest
// product / quotient (sign rules, zero rules, NaN propagation, |x*y| <= |x| for |y| <= 1,
// |x/y| <= 1 for |x| <= |y|, x/x == 1, weak monotonicity in one operand when the other is shared and
// positive). Every real execution is therefore one model of the abstraction: an obligation proven
// under it holds for the real arithmetic (over-approximation, sound for proofs). A counterexample may
// be spurious; it is only reported after it replays natively, where the real operations run.
const absMulName, absDivName = "abs.mul", "abs.div"

func init() {
	stubDoc["abstract float64 mul/div"] = "float64 product/quotient of two symbolic operands replaced by an uninterpreted function constrained by IEEE-valid sign, zero, NaN, magnitude and monotonicity facts (over-approximation: proofs are sound, counterexamples must replay natively)"
}

func (in *Interp) absMulDiv(mul bool, a, b *Term) *Term {
	ts := in.ts
	p := in.p
	zero := ts.F64C(0)
	one := ts.F64C(1)
	inf := ts.F64C(math.Inf(1))
	fin := func(x *Term) *Term { return ts.And(ts.FLt(ts.FNeg(inf), x), ts.FLt(x, inf)) }
	pos := func(x *Term) *Term { return ts.FLt(zero, x) }
	neg := func(x *Term) *Term { return ts.FLt(x, zero) }
	isz := func(x *Term) *Term { return ts.FEq(x, zero) }
	abs := func(x *Term) *Term { return ts.funary(OpFAbs, x) }
	notNaN := func(x *Term) *Term { return ts.Not(ts.FIsNaN(x)) }
	ax := func(c *Term) { p.Assume(c) }
	if !in.initing {
		in.usedStub("abstract float64 mul/div")
	}
	if mul {
		if a.id > b.id {
			a, b = b, a
		}
		r := ts.UF(absMulName, SF64, a, b)
		for _, o := range p.absApps {
			if o == r {
				return r
			}
		}
		same := ts.Or(ts.And(pos(a), pos(b)), ts.And(neg(a), neg(b)))
		diff := ts.Or(ts.And(pos(a), neg(b)), ts.And(neg(a), pos(b)))
		ax(ts.Implies(same, ts.And(notNaN(r), ts.FLe(zero, r))))
		ax(ts.Implies(diff, ts.And(notNaN(r), ts.FLe(r, zero))))
		ax(ts.Implies(ts.Or(ts.And(isz(a), fin(b)), ts.And(isz(b), fin(a))), isz(r)))
		ax(ts.Implies(ts.Or(ts.FIsNaN(a), ts.FIsNaN(b)), ts.FIsNaN(r)))
		ax(ts.Implies(ts.And(fin(a), ts.FLe(abs(b), one)), ts.FLe(abs(r), abs(a))))
		ax(ts.Implies(ts.And(fin(b), ts.FLe(abs(a), one)), ts.FLe(abs(r), abs(b))))
		// weak monotonicity against earlier products sharing an operand
		for _, o := range p.absApps {
			if o.name != absMulName {
				continue
			}
			for _, sh := range [][4]*Term{{a, b, o.args[0], o.args[1]}, {a, b, o.args[1], o.args[0]}, {b, a, o.args[0], o.args[1]}, {b, a, o.args[1], o.args[0]}} {
				if sh[0] == sh[2] { // shared operand c = sh[0]; x = sh[1] (new), y = sh[3] (old)
					c, x, y := sh[0], sh[1], sh[3]
					ax(ts.Implies(ts.And(ts.And(pos(c), fin(c)), ts.And(ts.FLe(x, y), ts.And(fin(x), fin(y)))), ts.FLe(r, o)))
					ax(ts.Implies(ts.And(ts.And(pos(c), fin(c)), ts.And(ts.FLe(y, x), ts.And(fin(x), fin(y)))), ts.FLe(o, r)))
				}
			}
		}
		p.absApps = append(p.absApps, r)
		return r
	}
	r := ts.UF(absDivName, SF64, a, b)
	for _, o := range p.absApps {
		if o == r {
			return r
		}
	}
	okInf := ts.Or(fin(a), fin(b)) // Inf/Inf is NaN
	same := ts.And(okInf, ts.Or(ts.And(pos(a), pos(b)), ts.And(neg(a), neg(b))))
	diff := ts.And(okInf, ts.Or(ts.And(pos(a), neg(b)), ts.And(neg(a), pos(b))))
	ax(ts.Implies(same, ts.And(notNaN(r), ts.FLe(zero, r))))
	ax(ts.Implies(diff, ts.And(notNaN(r), ts.FLe(r, zero))))
	ax(ts.Implies(ts.And(isz(a), ts.And(notNaN(b), ts.Not(isz(b)))), isz(r)))
	ax(ts.Implies(ts.Or(ts.FIsNaN(a), ts.FIsNaN(b)), ts.FIsNaN(r)))
	nzfin := ts.And(fin(a), ts.And(fin(b), ts.Not(isz(b))))
	ax(ts.Implies(ts.And(nzfin, ts.FLe(abs(a), abs(b))), ts.FLe(abs(r), one)))
	ax(ts.Implies(ts.And(nzfin, ts.FLe(abs(b), abs(a))), ts.FLe(one, abs(r))))
	ax(ts.Implies(ts.And(nzfin, ts.FEq(a, b)), ts.FEq(r, one)))
	// weak monotonicity in the numerator for a shared positive denominator
	for _, o := range p.absApps {
		if o.name != absDivName || o.args[1] != b {
			continue
		}
		x, y := a, o.args[0]
		g := ts.And(ts.And(pos(b), fin(b)), ts.And(fin(x), fin(y)))
		ax(ts.Implies(ts.And(g, ts.FLe(x, y)), ts.FLe(r, o)))
		ax(ts.Implies(ts.And(g, ts.FLe(y, x)), ts.FLe(o, r)))
	}
	p.absApps = append(p.absApps, r)
	return r
}

// sync/atomic.Value (single-threaded executions only): Load/Store on a per-path side table keyed by the
// receiver's object and field path. Enough for caches guarded by an atomic.Value.
func atomicKey(v Value) string {
	p, ok := v.(PtrV)
	if !ok || p.obj == nil {
		unsup("atomic.Value method on a non-pointer receiver")
	}
	return fmt.Sprintf("%d/%v", p.obj.id, p.path)
}

func init() {
	def := func(name, doc string, f stubFn) {
		stubDoc[name] = doc
		stubs[name] = func(in *Interp, a []Value) Value {
			if !in.initing {
				in.usedStub(name)
			}
			return f(in, a)
		}
	}
	def("(*sync/atomic.Value).Load", "single-threaded model: returns the last stored interface value (nil interface if none)", func(in *Interp, a []Value) Value {
		if in.atomicVals == nil {
			in.atomicVals = map[string]Value{}
		}
		if v, ok := in.atomicVals[atomicKey(a[0])]; ok {
			return v
		}
		return IfaceV{}
	})
	def("(*sync/atomic.Value).Store", "single-threaded model: remembers the stored interface value", func(in *Interp, a []Value) Value {
		if in.atomicVals == nil {
			in.atomicVals = map[string]Value{}
		}
		in.atomicVals[atomicKey(a[0])] = a[1]
		return nil
	})
}
