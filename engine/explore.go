package main

// Path exploration: concolic-style forking by re-execution. A work item is a decision prefix plus
// a model satisfying the path condition of that prefix. Running an item re-executes the harness
// from the start, replaying the prefix without solver queries, then explores onward: at every
// symbolic branch the current model picks the side taken (free) and the solver is asked once for
// the other side; a satisfiable other side becomes a new work item.

import (
	"fmt"
	"os"
	"sort"
	"strings"
	"sync"
	"sync/atomic"
	"time"
)

type Decision struct {
	kind byte // 'b' branch, 'c' concretise, 'k' choose
	val  uint64
}

type Item struct {
	dec   []Decision
	model Model
}

type ObStat struct {
	Checked      int `json:"checked"`
	Trivial      int `json:"trivial"`
	Discharged   int `json:"discharged_unsat"`
	Violated     int `json:"violated"`
	Inconclusive int `json:"inconclusive"`
}

type Violation struct {
	Harness string            `json:"harness"`
	ID      string            `json:"obligation"`
	Where   string            `json:"where"`
	Msg     string            `json:"message,omitempty"`
	Inputs  map[string]string `json:"inputs"`
	Order   []string          `json:"input_order"`
	Known   string            `json:"known_finding,omitempty"`
	Replay  string            `json:"replay_file,omitempty"`
	Repro   string            `json:"replay_result,omitempty"`
}

type HarnessRun struct {
	Name string
	cfg  *Config
	mu   sync.Mutex

	Paths        int
	PathsDone    int
	PathsInfeas  int
	Obs          map[string]*ObStat
	Covers       map[string]int
	Violations   []*Violation
	violSeen     map[string]int
	Inconclusive map[string]int
	Unsupported  map[string]int
	FnInstr      map[string]int
	Queries      [3]int
	QueriesOne   int
	SolverNs     int64
	MaxDecisions int
	Samples      []string
	KnownHit     map[string]int
	Bounds       map[string]string
	Assumptions  map[string]bool
	wall         time.Duration
	merged       int
	Passing      []*Violation // sampled passing paths (inputs only)
	activeNs     int64
	stop         int32
}

type Config struct {
	Tier         string
	QueryMs      int
	EscalateSec  int
	Unwind       int
	MaxSteps     int
	MaxAlloc     int
	ConcCap      int
	Workers      int
	MaxPaths     int
	KnownOpen    map[string]bool
	Verbose      bool
	MaxViolPerID int
	BudgetSec    int
	SamplePass   int // passing paths per harness whose final model is replayed natively (translator validation)
}

type pathEnd struct {
	kind string // done, infeasible, inconclusive, panic, unsupported, stopped
	msg  string
}

type Path struct {
	run    *HarnessRun
	cfg    *Config
	ts     *TermStore
	em     *Emitter
	proc   *Proc
	model  Model
	ev     *evalCtx
	pcIDs  map[int]bool
	pcHard bool
	script []string

	prefix []Decision
	pos    int
	dec    []Decision

	symCount map[string]int
	inputs   []inputRec
	known    []string
	push     func(Item)

	unwind   int
	maxSteps int
	maxAlloc int
	mapMode  int
	nq       int
	spec     int
	mapFixed bool
	absFP    bool      // float64 products/quotients of two symbolic operands are abstracted (see absMulDiv)
	absApps  []*Term
	noSimplify bool
	noMerge  bool
	where    func() string
}

type inputRec struct {
	name string
	kind string // int64,uint64,...,f64,dy:<scale>,bool,choose
	term *Term
	val  uint64 // for choose
}

func (p *Path) replaying() bool { return p.pos < len(p.prefix) }

func (p *Path) setModel(m Model) {
	p.model = m
	p.ev = p.newEval(m)
}

func (p *Path) newEval(m Model) *evalCtx {
	e := newEvalCtx(m)
	e.known = p.em.ufApps
	return e
}

func (p *Path) evalBool(t *Term) bool { return p.ev.evalBool(t) }

func (p *Path) flushDefs() {
	lines := p.em.take()
	if len(lines) > 0 {
		p.script = append(p.script, lines...)
		p.proc.send(lines)
	}
}

func (p *Path) assertPC(c *Term) {
	if c.IsConst() {
		if !c.Bool() {
			panic(pathEnd{"infeasible", "asserted false"})
		}
		return
	}
	if p.pcIDs[c.id] {
		return
	}
	p.pcIDs[c.id] = true
	if c.op == OpAnd {
		// also remember the conjuncts
		p.pcIDs[c.args[0].id] = true
		p.pcIDs[c.args[1].id] = true
	}
	if !p.pcHard && containsHardFP(c, map[int]bool{}) {
		p.pcHard = true
	}
	r := p.em.ref(c)
	p.em.out = append(p.em.out, fmt.Sprintf("(assert %s)", r))
	p.flushDefs()
}

func (p *Path) modelNames() []string {
	var names []string
	for _, v := range p.ts.vars {
		if p.em.defined[v.id] {
			names = append(names, "|"+v.name+"|")
		}
	}
	for _, t := range p.em.aux {
		names = append(names, t)
	}
	return names
}

// query asks whether pc ∧ extra is satisfiable.
func (p *Path) query(extra *Term) (Verdict, Model) {
	if atomic.LoadInt32(&p.run.stop) != 0 {
		panic(pathEnd{"stopped", ""})
	}
	r := p.em.ref(extra)
	p.flushDefs()
	p.nq++
	hard := p.pcHard || containsHardFP(extra, map[int]bool{})
	t0 := time.Now()
	var v Verdict = Unknown
	var m Model
	names := p.modelNames()
	if !hard {
		out, err := p.proc.roundtrip([]string{"(push 1)", fmt.Sprintf("(assert %s)", r), "(check-sat)"})
		if err == nil {
			v = verdictOf(out)
			if v == Sat {
				m = Model{}
				if len(names) > 0 {
					mo, err2 := p.proc.roundtrip([]string{fmt.Sprintf("(get-value (%s))", strings.Join(names, " "))})
					if err2 != nil || strings.Contains(mo, "(error") || !parseModel(mo, m) {
						v = Unknown
					}
				}
			}
			p.proc.send([]string{"(pop 1)"})
		} else {
			// restart the solver for this path
			p.restartProc()
		}
	}
	if v == Unknown {
		// escalate: one-shot runs of the complete script
		order := []string{"z3", "cvc5"}
		if hard {
			order = []string{"cvc5", "z3"}
		}
		script := append(append([]string{}, p.script...), fmt.Sprintf("(assert %s)", r))
		for _, k := range order {
			vv, out, _ := oneShot(k, script, time.Duration(p.cfg.EscalateSec)*time.Second, names)
			p.run.mu.Lock()
			p.run.QueriesOne++
			p.run.mu.Unlock()
			if vv == Sat {
				mm := Model{}
				if len(names) == 0 || parseModel(modelPart(out), mm) {
					v, m = Sat, mm
					break
				}
			} else if vv == Unsat {
				v = Unsat
				break
			}
		}
	}
	d := time.Since(t0)
	if slowMs > 0 && d > time.Duration(slowMs)*time.Millisecond {
		n := atomic.AddInt64(&slowSeq, 1)
		fn := fmt.Sprintf("/tmp/probe/slow-%d.smt2", n)
		var sb strings.Builder
		sb.WriteString("(set-logic ALL)\n")
		for _, l := range p.script {
			sb.WriteString(l + "\n")
		}
		sb.WriteString(fmt.Sprintf("(assert %s)\n(check-sat)\n", r))
		os.WriteFile(fn, []byte(sb.String()), 0o644)
		fmt.Fprintf(os.Stderr, "SLOW %v %s verdict=%v at %s -> %s\n", d, p.run.Name, v, p.whereHint(), fn)
	}
	p.run.mu.Lock()
	p.run.Queries[v]++
	p.run.SolverNs += int64(d)
	p.run.mu.Unlock()
	atomic.AddInt64(&statQueries[v], 1)
	atomic.AddInt64(&statSolverNs, int64(d))
	return v, m
}

func modelPart(out string) string {
	i := strings.Index(out, "sat")
	if i < 0 {
		return out
	}
	return out[i+3:]
}

func (p *Path) restartProc() {
	p.proc.close()
	np, err := startProc(incrementalSolver(), p.cfg.QueryMs)
	if err != nil {
		panic(pathEnd{"inconclusive", "cannot restart solver: " + err.Error()})
	}
	*p.proc = *np
	p.proc.send([]string{"(push 1)"})
	p.proc.send(p.script)
}

func (p *Path) record(d Decision) { p.dec = append(p.dec, d) }

func (p *Path) fork(d Decision, m Model) {
	nd := make([]Decision, len(p.dec)+1)
	copy(nd, p.dec)
	nd[len(p.dec)] = d
	p.push(Item{dec: nd, model: m})
}

// Branch decides a symbolic condition.
func (p *Path) Branch(c *Term) bool {
	if c.IsConst() {
		return c.Bool()
	}
	if p.spec > 0 {
		panic(specAbort{})
	}
	if p.pcIDs[c.id] {
		return true
	}
	nc := p.ts.Not(c)
	if p.pcIDs[nc.id] {
		return false
	}
	if p.replaying() {
		d := p.prefix[p.pos]
		p.pos++
		if d.kind != 'b' {
			panic(fmt.Sprintf("replay divergence: expected branch decision, have %c", d.kind))
		}
		p.record(d)
		if d.val != 0 {
			p.assertPC(c)
			return true
		}
		p.assertPC(nc)
		return false
	}
	v := p.evalBool(c)
	other := c
	if v {
		other = nc
	}
	verdict, m := p.query(other)
	switch verdict {
	case Sat:
		p.fork(Decision{'b', b2u(!v)}, m)
	case Unknown:
		p.run.note(&p.run.Inconclusive, "branch feasibility unknown at "+p.whereHint())
	}
	p.record(Decision{'b', b2u(v)})
	if v {
		p.assertPC(c)
	} else {
		p.assertPC(nc)
	}
	return v
}

func (p *Path) whereHint() string {
	if p.where != nil {
		return p.where()
	}
	return "?"
}

// Assume restricts the path; ends it when infeasible.
func (p *Path) Assume(c *Term) {
	if p.spec > 0 {
		panic(specAbort{})
	}
	if c.IsConst() {
		if !c.Bool() {
			panic(pathEnd{"infeasible", "assume(false)"})
		}
		return
	}
	if p.replaying() {
		p.assertPC(c)
		return
	}
	if !p.evalBool(c) {
		v, m := p.query(c)
		switch v {
		case Sat:
			p.setModel(m)
		case Unsat:
			panic(pathEnd{"infeasible", "assumption unsatisfiable"})
		default:
			panic(pathEnd{"inconclusive", "assumption feasibility unknown"})
		}
	}
	p.assertPC(c)
}

// Check discharges an obligation: pc ⇒ c.
func (p *Path) Check(id string, c *Term, where string, isPanic bool) {
	if p.spec > 0 {
		panic(specAbort{})
	}
	if p.replaying() {
		p.assertPC(c)
		return
	}
	p.run.mu.Lock()
	st := p.run.ob(id)
	st.Checked++
	p.run.mu.Unlock()
	if (c.IsConst() && c.Bool()) || p.pcIDs[c.id] {
		p.run.mu.Lock()
		st.Trivial++
		p.run.mu.Unlock()
		return
	}
	if c.IsConst() {
		p.violation(id, where, "", p.model)
		panic(pathEnd{"done", "obligation concretely false"})
	}
	nc := p.ts.Not(c)
	if !p.evalBool(c) {
		p.violation(id, where, "", p.model)
	} else {
		v, m := p.query(nc)
		switch v {
		case Sat:
			p.violation(id, where, "", m)
		case Unsat:
			p.run.mu.Lock()
			st.Discharged++
			if len(p.run.Samples) < 12 {
				p.run.Samples = append(p.run.Samples, fmt.Sprintf("%s at %s after %d decisions: unsat", id, where, len(p.dec)))
			}
			p.run.mu.Unlock()
		default:
			p.run.mu.Lock()
			st.Inconclusive++
			p.run.mu.Unlock()
			p.run.note(&p.run.Inconclusive, "obligation "+id+" unknown at "+where)
		}
	}
	// continue under the obligation
	if !p.evalBool(c) {
		v, m := p.query(c)
		if v != Sat {
			panic(pathEnd{"done", "no continuation satisfies the obligation"})
		}
		p.setModel(m)
	}
	p.assertPC(c)
}

func (p *Path) ConcretePanic(msg, where string) {
	if p.spec > 0 {
		panic(specAbort{})
	}
	if !p.replaying() {
		p.violation("no-panic", where, msg, p.model)
	}
	panic(pathEnd{"panic", msg})
}

// ProvenEqual returns the index of a candidate that the solver proves equal to t under the path
// condition, or -1. Candidates are pre-filtered by evaluation under the current model.
func (p *Path) ProvenEqual(t *Term, cands []*Term) int {
	if p.replaying() {
		d := p.prefix[p.pos]
		p.pos++
		if d.kind != 'e' {
			panic(fmt.Sprintf("replay divergence: expected equality decision, have %c", d.kind))
		}
		p.record(d)
		k := int(d.val) - 1
		if k >= 0 {
			p.assertPC(p.ts.Eq(t, cands[k]))
		}
		return k
	}
	res := -1
	tv := p.ev.eval(t)
	for k := len(cands) - 1; k >= 0; k-- {
		c := cands[k]
		if c.sort != t.sort || c == t {
			continue
		}
		cv := p.ev.eval(c)
		if cv.u != tv.u {
			continue
		}
		eq := p.ts.Eq(t, c)
		if eq.IsConst() {
			if eq.Bool() {
				res = k
				break
			}
			continue
		}
		if v, _ := p.query(p.ts.Not(eq)); v == Unsat {
			p.assertPC(eq)
			res = k
			break
		}
	}
	p.record(Decision{'e', uint64(res + 1)})
	return res
}

// Require: the engine's own side condition (e.g. a narrowing conversion of a mathematical integer
// stays in range). Not provable => the path is inconclusive, never silently assumed.
func (p *Path) Require(c *Term, msg string) {
	if c.IsConst() {
		if !c.Bool() {
			p.Inconclusive(msg)
		}
		return
	}
	if p.spec > 0 {
		panic(specAbort{})
	}
	if p.replaying() {
		p.assertPC(c)
		return
	}
	if !p.pcIDs[c.id] {
		if !p.evalBool(c) {
			p.Inconclusive(msg)
		}
		if v, _ := p.query(p.ts.Not(c)); v != Unsat {
			p.Inconclusive(msg)
		}
	}
	p.assertPC(c)
}

func (p *Path) decided(c *Term) bool {
	return p.pcIDs[c.id] || p.pcIDs[p.ts.Not(c).id]
}

func (p *Path) Inconclusive(msg string) {
	panic(pathEnd{"inconclusive", msg})
}

// snapshotInputs records the current model's values of every input of the path (used to replay a
// PASSING path natively: the real build must pass too).
func (p *Path) snapshotInputs() *Violation {
	return p.inputsUnder("(passing path)", "", "", p.model)
}

func (p *Path) violation(id, where, msg string, m Model) {
	v := p.inputsUnder(id, where, msg, m)
	if len(p.known) > 0 {
		v.Known = p.known[len(p.known)-1]
	}
	p.run.mu.Lock()
	defer p.run.mu.Unlock()
	p.run.ob(idNoLock(id)).Violated++
	key := id + "|" + v.Known
	if v.Known == "" {
		key = id + "|" + where
	}
	p.run.violSeen[key]++
	if p.run.violSeen[key] <= p.cfg.MaxViolPerID {
		p.run.Violations = append(p.run.Violations, v)
	}
}

func (p *Path) inputsUnder(id, where, msg string, m Model) *Violation {
	ev := p.newEval(m)
	v := &Violation{Harness: p.run.Name, ID: id, Where: where, Msg: msg, Inputs: map[string]string{}}
	for _, in := range p.inputs {
		var s string
		switch {
		case in.kind == "choose":
			s = fmt.Sprintf("%d", in.val)
		case in.term.sort == SDy:
			s = fmt.Sprintf("%d", int64(ev.eval(in.term).bi.Int64()))
		default:
			s = fmt.Sprintf("%d", ev.eval(in.term).u)
		}
		v.Inputs[in.name] = in.kind + ":" + s
		v.Order = append(v.Order, in.name)
	}
	// uninterpreted-function applications (single-argument): recorded so that the native replay
	// can answer them the way the model does
	for name, apps := range p.em.ufApps {
		for _, app := range apps {
			if len(app.args) != 1 {
				continue
			}
			var key uint64
			a := ev.eval(app.args[0])
			if a.bi != nil {
				key = uint64(a.bi.Int64())
			} else {
				key = a.u
			}
			r := ev.eval(app)
			var val uint64
			if r.bi != nil {
				val = uint64(r.bi.Int64())
			} else {
				val = r.u
			}
			v.Inputs[fmt.Sprintf("uf:%s:%d", name, key)] = fmt.Sprintf("%d", val)
		}
	}
	return v
}

func idNoLock(s string) string { return s }

// Concretize enumerates the feasible values of t (bounded) and forks on each.
func (p *Path) Concretize(t *Term, what string) uint64 {
	if t.IsConst() {
		return t.U64()
	}
	if p.spec > 0 {
		panic(specAbort{})
	}
	w := t.sort.Width()
	if t.sort == SDy {
		w = 64
	}
	valOf := func(ev *evalCtx) uint64 {
		r := ev.eval(t)
		if t.sort == SDy {
			return uint64(r.bi.Int64())
		}
		return r.u
	}
	if p.replaying() {
		d := p.prefix[p.pos]
		p.pos++
		if d.kind != 'c' {
			panic(fmt.Sprintf("replay divergence: expected concretisation, have %c", d.kind))
		}
		p.record(d)
		p.assertPC(p.ts.Eq(t, p.ts.BV(w, d.val)))
		return d.val
	}
	v0 := valOf(p.ev)
	seen := []uint64{v0}
	excl := p.ts.Not(p.ts.Eq(t, p.ts.BV(w, v0)))
	for {
		verdict, m := p.query(excl)
		if verdict == Unsat {
			break
		}
		if verdict == Unknown {
			p.run.note(&p.run.Inconclusive, "concretisation of "+what+" unknown at "+p.whereHint())
			break
		}
		v := valOf(p.newEval(m))
		p.fork(Decision{'c', v}, m)
		seen = append(seen, v)
		if len(seen) > p.cfg.ConcCap {
			p.run.note(&p.run.Inconclusive, fmt.Sprintf("more than %d feasible values for %s at %s", p.cfg.ConcCap, what, p.whereHint()))
			break
		}
		excl = p.ts.And(excl, p.ts.Not(p.ts.Eq(t, p.ts.BV(w, v))))
	}
	p.record(Decision{'c', v0})
	p.assertPC(p.ts.Eq(t, p.ts.BV(w, v0)))
	return v0
}

// Choose enumerates n alternatives without consulting the solver.
func (p *Path) Choose(n int) int {
	if n <= 1 {
		return 0
	}
	if p.spec > 0 {
		panic(specAbort{})
	}
	if p.replaying() {
		d := p.prefix[p.pos]
		p.pos++
		if d.kind != 'k' {
			panic(fmt.Sprintf("replay divergence: expected choice, have %c", d.kind))
		}
		p.record(d)
		return int(d.val)
	}
	for i := 1; i < n; i++ {
		p.fork(Decision{'k', uint64(i)}, p.model)
	}
	p.record(Decision{'k', 0})
	return 0
}

func permutations(n int) [][]int {
	if n == 0 {
		return [][]int{{}}
	}
	var res [][]int
	var rec func(cur []int, used []bool)
	rec = func(cur []int, used []bool) {
		if len(cur) == n {
			res = append(res, append([]int{}, cur...))
			return
		}
		for i := 0; i < n; i++ {
			if !used[i] {
				used[i] = true
				rec(append(cur, i), used)
				used[i] = false
			}
		}
	}
	rec(nil, make([]bool, n))
	return res
}

// Permute chooses an iteration order for a map range. mode 0: every permutation (n <= 4),
// otherwise insertion order, its reverse and all rotations.
func (p *Path) Permute(es []*mapEntry) []*mapEntry {
	n := len(es)
	if n <= 1 || p.mapFixed || p.mapMode == 2 {
		return es
	}
	var perms [][]int
	if p.mapMode == 0 && n <= 4 {
		perms = permutations(n)
	} else {
		for r := 0; r < n; r++ {
			pm := make([]int, n)
			for i := range pm {
				pm[i] = (i + r) % n
			}
			perms = append(perms, pm)
		}
		rev := make([]int, n)
		for i := range rev {
			rev[i] = n - 1 - i
		}
		perms = append(perms, rev)
	}
	k := p.Choose(len(perms))
	out := make([]*mapEntry, n)
	for i, j := range perms[k] {
		out[i] = es[j]
	}
	return out
}

func (p *Path) Fresh(name string, s Sort, kind string) *Term {
	k := p.symCount[name]
	p.symCount[name]++
	full := fmt.Sprintf("%s#%d", name, k)
	t := p.ts.Var(full, s)
	p.inputs = append(p.inputs, inputRec{name: full, kind: kind, term: t})
	return t
}

func (r *HarnessRun) ob(id string) *ObStat {
	st, ok := r.Obs[id]
	if !ok {
		st = &ObStat{}
		r.Obs[id] = st
	}
	return st
}

func (r *HarnessRun) note(m *map[string]int, s string) {
	r.mu.Lock()
	(*m)[s]++
	r.mu.Unlock()
}

// ---------- running a harness ----------

var cpuSem chan struct{}
var slowMs = envInt("VERIF_SLOW", 0)
var slowSeq int64

func newRun(name string, cfg *Config) *HarnessRun {
	return &HarnessRun{Name: name, cfg: cfg, Obs: map[string]*ObStat{}, Covers: map[string]int{}, violSeen: map[string]int{},
		Inconclusive: map[string]int{}, Unsupported: map[string]int{}, FnInstr: map[string]int{}, KnownHit: map[string]int{},
		Bounds: map[string]string{}, Assumptions: map[string]bool{}}
}

func (w *World) Explore(h *harnessFn, cfg *Config) *HarnessRun {
	run := newRun(h.name, cfg)
	t0 := time.Now()
	var mu sync.Mutex
	cond := sync.NewCond(&mu)
	var queue []Item
	outstanding := 1
	queue = append(queue, Item{model: Model{}})
	push := func(it Item) {
		mu.Lock()
		queue = append(queue, it)
		outstanding++
		mu.Unlock()
		cond.Signal()
	}
	var wg sync.WaitGroup
	for i := 0; i < cfg.Workers; i++ {
		wg.Add(1)
		go func() {
			defer wg.Done()
			var proc *Proc
			defer func() {
				if proc != nil {
					proc.close()
				}
			}()
			for {
				mu.Lock()
				for len(queue) == 0 && outstanding > 0 {
					cond.Wait()
				}
				if outstanding == 0 {
					mu.Unlock()
					cond.Broadcast()
					return
				}
				// depth-first: newest item first keeps the queue small
				it := queue[len(queue)-1]
				queue = queue[:len(queue)-1]
				mu.Unlock()
				cpuSem <- struct{}{}
				if proc == nil || proc.dead {
					var err error
					proc, err = startProc(incrementalSolver(), cfg.QueryMs)
					if err != nil {
						run.note(&run.Inconclusive, "cannot start solver: "+err.Error())
						proc = nil
					}
				}
				if proc != nil && cfg.BudgetSec > 0 && time.Since(t0) > 3*time.Duration(cfg.BudgetSec)*time.Second {
					if atomic.CompareAndSwapInt32(&run.stop, 0, 1) {
						run.note(&run.Inconclusive, fmt.Sprintf("harness wall-clock budget of %ds exhausted", 3*cfg.BudgetSec))
					}
				}
				if proc != nil {
					tp := time.Now()
					w.runPath(h, run, cfg, proc, it, push)
					// budget in core-seconds actually spent on this harness (waiting for a CPU slot is free)
					used := atomic.AddInt64(&run.activeNs, int64(time.Since(tp)))
					if cfg.BudgetSec > 0 && used > int64(cfg.BudgetSec)*int64(cfg.Workers)*int64(time.Second) {
						if atomic.CompareAndSwapInt32(&run.stop, 0, 1) {
							run.note(&run.Inconclusive, fmt.Sprintf("harness budget of %d core-seconds exhausted", cfg.BudgetSec*cfg.Workers))
						}
					}
				}
				<-cpuSem
				mu.Lock()
				outstanding--
				done := outstanding == 0
				mu.Unlock()
				if done {
					cond.Broadcast()
				}
			}
		}()
	}
	wg.Wait()
	run.wall = time.Since(t0)
	return run
}

func (w *World) runPath(h *harnessFn, run *HarnessRun, cfg *Config, proc *Proc, it Item, push func(Item)) {
	run.mu.Lock()
	run.Paths++
	np := run.Paths
	run.mu.Unlock()
	if cfg.MaxPaths > 0 && np > cfg.MaxPaths {
		if np == cfg.MaxPaths+1 {
			run.note(&run.Inconclusive, fmt.Sprintf("path budget %d exhausted", cfg.MaxPaths))
		}
		atomic.StoreInt32(&run.stop, 1)
		return
	}
	if atomic.LoadInt32(&run.stop) != 0 {
		return
	}
	p := &Path{run: run, cfg: cfg, ts: NewTermStore(), em: NewEmitter(), proc: proc, pcIDs: map[int]bool{}, prefix: it.dec,
		symCount: map[string]int{}, push: push, unwind: cfg.Unwind, maxSteps: cfg.MaxSteps, maxAlloc: cfg.MaxAlloc}
	p.setModel(it.model)
	in := &Interp{w: w, p: p, ts: p.ts, globals: map[*ssa_Global]*Obj{}, fnInstr: map[*ssa_Function]int{}, visits: map[*ssa_Block]int{}, encoded: map[string][]*Term{}}
	proc.send([]string{"(push 1)"})
	defer func() {
		proc.send([]string{"(pop 1)"})
		r := recover()
		run.mu.Lock()
		for f, n := range in.fnInstr {
			run.FnInstr[f.String()] += n
		}
		if len(p.dec) > run.MaxDecisions {
			run.MaxDecisions = len(p.dec)
		}
		run.mu.Unlock()
		if r == nil {
			return
		}
		switch e := r.(type) {
		case pathEnd:
			switch e.kind {
			case "done", "panic":
				run.mu.Lock()
				run.PathsDone++
				run.mu.Unlock()
			case "infeasible":
				run.mu.Lock()
				run.PathsInfeas++
				run.mu.Unlock()
			case "inconclusive":
				run.note(&run.Inconclusive, e.msg)
			case "stopped":
			}
		case unsupported:
			run.note(&run.Unsupported, e.msg+" at "+in.where())
		default:
			panic(r)
		}
	}()
	p.where = in.where
	in.runHarness(h)
	if cfg.SamplePass > 0 && len(p.known) == 0 {
		run.mu.Lock()
		want := len(run.Passing) < cfg.SamplePass && (run.PathsDone%7 == 0 || run.PathsDone < 2)
		run.mu.Unlock()
		if want {
			v := p.snapshotInputs()
			run.mu.Lock()
			if len(run.Passing) < cfg.SamplePass {
				run.Passing = append(run.Passing, v)
			}
			run.mu.Unlock()
		}
	}
	panic(pathEnd{"done", ""})
}

func sortedKeys(m map[string]int) []string {
	var ks []string
	for k := range m {
		ks = append(ks, k)
	}
	sort.Strings(ks)
	return ks
}
