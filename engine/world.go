package main

import (
	"fmt"
	"go/token"
	"os"
	"path/filepath"
	"regexp"
	"sort"
	"strings"
	"sync"

	"golang.org/x/tools/go/packages"
	"golang.org/x/tools/go/ssa"
	"golang.org/x/tools/go/ssa/ssautil"
)

type ssa_Global = ssa.Global
type ssa_Function = ssa.Function
type ssa_Block = ssa.BasicBlock

const repoMod = "github.com/DataDog/sketches-go"

type harnessFn struct {
	name   string
	prop   string
	fn     *ssa.Function
	pkg    *ssa.Package
	relDir string
}

type World struct {
	prog                 *ssa.Program
	fset                 *token.FileSet
	pkgs                 []*ssa.Package
	harnesses            []*harnessFn
	concretizeIntToFloat map[string]bool
	initAllowed          map[string]bool
	overlay              map[string][]byte
	overlayReal          map[string]string // virtual path -> real file (for go test -overlay)
	repo                 string
	verifDir             string
	loadSecs             float64
	pureMu               sync.Mutex
	pureCache            map[*ssa.BasicBlock]bool
}

func (w *World) isPure(b *ssa.BasicBlock) bool {
	w.pureMu.Lock()
	defer w.pureMu.Unlock()
	if v, ok := w.pureCache[b]; ok {
		return v
	}
	v := pureBlock(b)
	w.pureCache[b] = v
	return v
}

var harnessRe = regexp.MustCompile(`^ZZ_(C[0-9]+)_`)

// buildOverlay maps /verif/harness/<rel>/zz_*.go to <repo>/<rel>/zz_*.go and instantiates the
// intrinsics template for every harness package.
func buildOverlay(verifDir, repo, genDir string) (map[string][]byte, map[string]string, []string, error) {
	ov := map[string][]byte{}
	real := map[string]string{}
	var rels []string
	root := filepath.Join(verifDir, "harness")
	tmpl, err := os.ReadFile(filepath.Join(root, "_common", "zz_intrinsics.go.tmpl"))
	if err != nil {
		return nil, nil, nil, err
	}
	err = filepath.Walk(root, func(path string, info os.FileInfo, err error) error {
		if err != nil {
			return err
		}
		if info.IsDir() || !strings.HasSuffix(path, ".go") {
			return nil
		}
		rel, _ := filepath.Rel(root, path)
		if strings.HasPrefix(rel, "_") {
			return nil
		}
		data, err := os.ReadFile(path)
		if err != nil {
			return err
		}
		v := filepath.Join(repo, rel)
		ov[v] = data
		real[v] = path
		d := filepath.Dir(rel)
		found := false
		for _, r := range rels {
			if r == d {
				found = true
			}
		}
		if !found {
			rels = append(rels, d)
		}
		return nil
	})
	if err != nil {
		return nil, nil, nil, err
	}
	pkgRe := regexp.MustCompile(`(?m)^package\s+(\w+)`)
	for _, d := range rels {
		// package name: from one of the harness files in that directory
		var pkgName string
		for v, data := range ov {
			if filepath.Dir(v) == filepath.Join(repo, d) {
				if m := pkgRe.FindSubmatch(data); m != nil {
					pkgName = string(m[1])
				}
			}
		}
		src := strings.Replace(string(tmpl), "package PKG", "package "+pkgName, 1)
		v := filepath.Join(repo, d, "zz_intrinsics.go")
		ov[v] = []byte(src)
		if genDir != "" {
			g := filepath.Join(genDir, strings.ReplaceAll(d, "/", "_")+"_zz_intrinsics.go")
			if err := os.WriteFile(g, []byte(src), 0o644); err != nil {
				return nil, nil, nil, err
			}
			real[v] = g
		}
	}
	sort.Strings(rels)
	return ov, real, rels, nil
}

func loadWorld(repo, verifDir, genDir string) (*World, error) {
	ov, real, rels, err := buildOverlay(verifDir, repo, genDir)
	if err != nil {
		return nil, err
	}
	var patterns []string
	for _, r := range rels {
		patterns = append(patterns, "./"+r)
	}
	cfg := &packages.Config{
		Mode:       packages.LoadAllSyntax,
		Dir:        repo,
		Overlay:    ov,
		BuildFlags: []string{"-tags=verif"},
		Env:        append(os.Environ(), "GOFLAGS=-mod=mod", "GOPROXY=off", "GOSUMDB=off", "GOTOOLCHAIN=local"),
	}
	pkgs, err := packages.Load(cfg, patterns...)
	if err != nil {
		return nil, err
	}
	nerr := 0
	packages.Visit(pkgs, nil, func(p *packages.Package) {
		for _, e := range p.Errors {
			fmt.Fprintf(os.Stderr, "load error: %v\n", e)
			nerr++
		}
	})
	if nerr > 0 {
		return nil, fmt.Errorf("%d package load errors", nerr)
	}
	prog, _ := ssautil.AllPackages(pkgs, ssa.InstantiateGenerics)
	prog.Build()
	w := &World{prog: prog, fset: prog.Fset, overlay: ov, overlayReal: real, repo: repo, verifDir: verifDir,
		concretizeIntToFloat: map[string]bool{"getNewLength": true}, pureCache: map[*ssa.BasicBlock]bool{},
		initAllowed:          map[string]bool{"io": true}}
	for _, p := range prog.AllPackages() {
		path := p.Pkg.Path()
		if strings.HasPrefix(path, repoMod) && !strings.Contains(path, "/pb/") {
			w.initAllowed[path] = true
		}
	}
	for _, lp := range pkgs {
		sp := prog.Package(lp.Types)
		if sp == nil {
			continue
		}
		w.pkgs = append(w.pkgs, sp)
		rel := strings.TrimPrefix(strings.TrimPrefix(lp.PkgPath, repoMod), "/")
		var names []string
		for name, m := range sp.Members {
			if f, ok := m.(*ssa.Function); ok {
				if mm := harnessRe.FindStringSubmatch(name); mm != nil {
					names = append(names, name)
					_ = f
				}
			}
		}
		sort.Strings(names)
		for _, name := range names {
			mm := harnessRe.FindStringSubmatch(name)
			w.harnesses = append(w.harnesses, &harnessFn{name: name, prop: mm[1], fn: sp.Members[name].(*ssa.Function), pkg: sp, relDir: rel})
		}
	}
	return w, nil
}

// runHarness initialises the allowed packages (their real init functions, executed concretely by
// this interpreter) and then runs the harness function.
func (in *Interp) runHarness(h *harnessFn) {
	in.initing = true
	if initFn := h.pkg.Func("init"); initFn != nil {
		in.call(initFn, nil, nil)
	}
	in.initing = false
	in.steps = 0
	for b := range in.visits {
		delete(in.visits, b)
	}
	for f := range in.fnInstr {
		delete(in.fnInstr, f)
	}
	in.call(h.fn, nil, nil)
	in.p.run.mu.Lock()
	in.p.run.Covers["harness-end"]++
	in.p.run.mu.Unlock()
}
