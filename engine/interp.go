package main

// Symbolic interpreter for go/ssa. One Interp per path; the object graph (pointers, slice
// backing arrays, maps, dynamic types, closures) is concrete, scalar leaves are *Term.

import (
	"fmt"
	"go/constant"
	"go/token"
	"go/types"
	"strings"

	"golang.org/x/tools/go/ssa"
)

type Interp struct {
	w       *World // shared, read-only program info
	p       *Path
	ts      *TermStore
	globals map[*ssa.Global]*Obj
	nextObj int
	steps   int
	depth   int
	// statistics
	fnInstr map[*ssa.Function]int
	curPos  token.Pos
	curFn   *ssa.Function
	visits  map[*ssa.BasicBlock]int
	initing bool
	pendingGo []func()
	encoded   map[string][]*Term
	atomicVals map[string]Value // sync/atomic.Value contents (single-threaded model)
}

type Frame struct {
	fn     *ssa.Function
	locals map[ssa.Value]Value
	defers []func()
}

type goPanic struct {
	msg string
}

func (in *Interp) newObj(v Value, name string) *Obj {
	in.nextObj++
	return &Obj{id: in.nextObj, val: v, name: name}
}

// ---------- types ----------

func scalarSort(t types.Type) (Sort, bool, bool) { // sort, signed, ok
	b, ok := t.Underlying().(*types.Basic)
	if !ok {
		return 0, false, false
	}
	switch b.Kind() {
	case types.Bool, types.UntypedBool:
		return SBool, false, true
	case types.Int, types.Int64, types.UntypedInt:
		return SBV64, true, true
	case types.Int32, types.UntypedRune:
		return SBV32, true, true
	case types.Int16:
		return SBV16, true, true
	case types.Int8:
		return SBV8, true, true
	case types.Uint, types.Uint64, types.Uintptr:
		return SBV64, false, true
	case types.Uint32:
		return SBV32, false, true
	case types.Uint16:
		return SBV16, false, true
	case types.Uint8:
		return SBV8, false, true
	case types.Float64, types.UntypedFloat:
		return SF64, true, true
	}
	return 0, false, false
}

func (in *Interp) zero(t types.Type) Value {
	switch u := t.Underlying().(type) {
	case *types.Basic:
		if u.Kind() == types.String || u.Kind() == types.UntypedString {
			return StrV("")
		}
		if u.Kind() == types.UnsafePointer || u.Kind() == types.UntypedNil {
			return PtrV{}
		}
		s, _, ok := scalarSort(t)
		if !ok {
			unsup("zero value of basic type %v", t)
		}
		switch s {
		case SBool:
			return in.ts.BoolC(false)
		case SF64:
			return in.ts.F64C(0)
		default:
			return in.ts.BV(s.Width(), 0)
		}
	case *types.Pointer:
		return PtrV{}
	case *types.Slice:
		return SliceV{off: in.ts.BV(64, 0), len: in.ts.BV(64, 0), cap: in.ts.BV(64, 0)}
	case *types.Map:
		return MapV{}
	case *types.Chan:
		return ChanV{}
	case *types.Signature:
		return FuncV{}
	case *types.Interface:
		return IfaceV{}
	case *types.Struct:
		f := make([]Value, u.NumFields())
		for i := range f {
			f[i] = in.zero(u.Field(i).Type())
		}
		return &StructV{f}
	case *types.Array:
		n := int(u.Len())
		e := make([]Value, n)
		if n > 0 {
			z := in.zero(u.Elem())
			for i := range e {
				e[i] = z
			}
		}
		return &ArrayV{e}
	case *types.Tuple:
		tv := make(TupleV, u.Len())
		for i := range tv {
			tv[i] = in.zero(u.At(i).Type())
		}
		return tv
	}
	unsup("zero value of type %v", t)
	return nil
}

func (in *Interp) constVal(c *ssa.Const) Value {
	t := c.Type()
	if c.Value == nil {
		return in.zero(t)
	}
	if b, ok := t.Underlying().(*types.Basic); ok {
		if b.Info()&types.IsString != 0 {
			return StrV(constant.StringVal(c.Value))
		}
		s, signed, ok := scalarSort(t)
		if !ok {
			unsup("constant of type %v", t)
		}
		switch s {
		case SBool:
			return in.ts.BoolC(constant.BoolVal(c.Value))
		case SF64:
			f, _ := constant.Float64Val(constant.ToFloat(c.Value))
			return in.ts.F64C(f)
		default:
			iv := constant.ToInt(c.Value)
			if signed {
				v, _ := constant.Int64Val(iv)
				return in.ts.BV(s.Width(), uint64(v))
			}
			v, exact := constant.Uint64Val(iv)
			if !exact {
				sv, _ := constant.Int64Val(iv)
				v = uint64(sv)
			}
			return in.ts.BV(s.Width(), v)
		}
	}
	unsup("constant %v of type %v", c, t)
	return nil
}

// ---------- memory ----------

func (in *Interp) rtPanic(msg string) {
	// concrete runtime panic on this path
	in.p.ConcretePanic(msg, in.where())
}

func (in *Interp) where() string {
	if in.curFn == nil {
		return "?"
	}
	pos := in.w.fset.Position(in.curPos)
	f := pos.Filename
	if i := strings.LastIndex(f, "/"); i >= 0 {
		f = f[i+1:]
	}
	return fmt.Sprintf("%s@%s:%d", in.curFn.Name(), f, pos.Line)
}

func (in *Interp) load(p PtrV) Value {
	if p.obj == nil {
		in.rtPanic("nil pointer dereference")
	}
	return in.sel(p.obj.val, p.path)
}

func (in *Interp) sel(v Value, path []Sel) Value {
	for i, s := range path {
		if s.idx == nil {
			v = v.(*StructV).f[s.field]
			continue
		}
		arr := v.(*ArrayV)
		if s.idx.IsConst() {
			k := s.idx.U64()
			if k >= uint64(len(arr.e)) {
				in.rtPanic(fmt.Sprintf("index out of range [%d] with length %d", int64(k), len(arr.e)))
			}
			v = arr.e[k]
			continue
		}
		// symbolic index: merge the selections of the rest of the path over all elements
		rest := path[i+1:]
		n := len(arr.e)
		if n == 0 {
			in.rtPanic("index into empty array")
		}
		var acc Value
		mergeable := true
		for k := n - 1; k >= 0; k-- {
			ev := in.sel(arr.e[k], rest)
			if acc == nil {
				acc = ev
				continue
			}
			c := in.ts.Eq(s.idx, in.ts.BV(64, uint64(k)))
			m, ok := in.mergeVal(c, ev, acc)
			if !ok {
				mergeable = false
				break
			}
			acc = m
		}
		if mergeable {
			return acc
		}
		k := in.p.Concretize(s.idx, "index of non-scalar element")
		if k >= uint64(n) {
			in.rtPanic("index out of range (concretised)")
		}
		return in.sel(arr.e[k], rest)
	}
	return v
}

// mergeVal builds ite(c, a, b) structurally; false if the values cannot be merged.
func (in *Interp) mergeVal(c *Term, a, b Value) (Value, bool) {
	switch x := a.(type) {
	case *Term:
		y, ok := b.(*Term)
		if !ok {
			return nil, false
		}
		return in.ts.Ite(c, x, y), true
	case *StructV:
		y, ok := b.(*StructV)
		if !ok || len(x.f) != len(y.f) {
			return nil, false
		}
		if x == y {
			return x, true
		}
		f := make([]Value, len(x.f))
		for i := range f {
			m, ok := in.mergeVal(c, x.f[i], y.f[i])
			if !ok {
				return nil, false
			}
			f[i] = m
		}
		return &StructV{f}, true
	case *ArrayV:
		y, ok := b.(*ArrayV)
		if !ok || len(x.e) != len(y.e) {
			return nil, false
		}
		if x == y {
			return x, true
		}
		e := make([]Value, len(x.e))
		for i := range e {
			m, ok := in.mergeVal(c, x.e[i], y.e[i])
			if !ok {
				return nil, false
			}
			e[i] = m
		}
		return &ArrayV{e}, true
	case StrV:
		if y, ok := b.(StrV); ok && x == y {
			return x, true
		}
	case PtrV:
		if y, ok := b.(PtrV); ok && x.obj == y.obj && len(x.path) == 0 && len(y.path) == 0 {
			return x, true
		}
	case SliceV:
		if y, ok := b.(SliceV); ok && x.base.obj == y.base.obj && len(x.base.path) == 0 && len(y.base.path) == 0 {
			return SliceV{base: x.base, off: in.ts.Ite(c, x.off, y.off), len: in.ts.Ite(c, x.len, y.len), cap: in.ts.Ite(c, x.cap, y.cap)}, true
		}
	case IfaceV:
		if y, ok := b.(IfaceV); ok && x.typ == nil && y.typ == nil {
			return x, true
		}
	}
	return nil, false
}

func (in *Interp) store(p PtrV, v Value) {
	if p.obj == nil {
		in.rtPanic("nil pointer dereference (store)")
	}
	p.obj.val = in.upd(p.obj.val, p.path, v)
}

func (in *Interp) upd(old Value, path []Sel, v Value) Value {
	if len(path) == 0 {
		return v
	}
	s := path[0]
	if s.idx == nil {
		st := old.(*StructV)
		f := make([]Value, len(st.f))
		copy(f, st.f)
		f[s.field] = in.upd(st.f[s.field], path[1:], v)
		return &StructV{f}
	}
	arr := old.(*ArrayV)
	if s.idx.IsConst() {
		k := s.idx.U64()
		if k >= uint64(len(arr.e)) {
			in.rtPanic(fmt.Sprintf("index out of range [%d] with length %d (store)", int64(k), len(arr.e)))
		}
		e := make([]Value, len(arr.e))
		copy(e, arr.e)
		e[k] = in.upd(arr.e[k], path[1:], v)
		return &ArrayV{e}
	}
	e := make([]Value, len(arr.e))
	ok := true
	for k := range arr.e {
		c := in.ts.Eq(s.idx, in.ts.BV(64, uint64(k)))
		nv := in.upd(arr.e[k], path[1:], v)
		m, good := in.mergeVal(c, nv, arr.e[k])
		if !good {
			ok = false
			break
		}
		e[k] = m
	}
	if ok {
		return &ArrayV{e}
	}
	k := in.p.Concretize(s.idx, "store index of non-scalar element")
	if k >= uint64(len(arr.e)) {
		in.rtPanic("index out of range (concretised store)")
	}
	copy(e, arr.e)
	e[k] = in.upd(arr.e[k], path[1:], v)
	return &ArrayV{e}
}

func appendSel(path []Sel, s Sel) []Sel {
	np := make([]Sel, len(path)+1)
	copy(np, path)
	np[len(path)] = s
	return np
}

// ---------- helpers on terms ----------

func (in *Interp) toBV64(t *Term, signed bool) *Term {
	if signed {
		return in.ts.SExt(t, 64)
	}
	return in.ts.ZExt(t, 64)
}

func (in *Interp) constU(t *Term, what string) uint64 {
	if t.IsConst() {
		return t.U64()
	}
	return in.p.Concretize(t, what)
}

// bounds obligation: 0 <= i < n  (both BV64; i already extended by its signedness)
func (in *Interp) checkIndex(i, n *Term) {
	c := in.ts.ULt(i, n)
	if c.IsConst() {
		if !c.Bool() {
			in.rtPanic(fmt.Sprintf("index out of range [%d] with length %d", int64(i.U64()), n.U64()))
		}
		return
	}
	in.p.Check("no-panic/index", c, in.where(), true)
}

// ---------- equality ----------

func (in *Interp) equal(a, b Value) *Term {
	ts := in.ts
	switch x := a.(type) {
	case *Term:
		return ts.Eq(x, b.(*Term))
	case StrV:
		return ts.BoolC(x == b.(StrV))
	case PtrV:
		y := b.(PtrV)
		if x.obj != y.obj || len(x.path) != len(y.path) {
			return ts.BoolC(false)
		}
		r := ts.BoolC(true)
		for i := range x.path {
			if (x.path[i].idx == nil) != (y.path[i].idx == nil) {
				return ts.BoolC(false)
			}
			if x.path[i].idx == nil {
				if x.path[i].field != y.path[i].field {
					return ts.BoolC(false)
				}
			} else {
				r = ts.And(r, ts.Eq(x.path[i].idx, y.path[i].idx))
			}
		}
		return r
	case IfaceV:
		y, ok := b.(IfaceV)
		if !ok {
			unsup("comparison of interface with %T", b)
		}
		if x.typ == nil || y.typ == nil {
			return ts.BoolC(x.typ == nil && y.typ == nil)
		}
		if !types.Identical(x.typ, y.typ) {
			return ts.BoolC(false)
		}
		return in.equal(x.val, y.val)
	case *StructV:
		y := b.(*StructV)
		r := ts.BoolC(true)
		for i := range x.f {
			r = ts.And(r, in.equal(x.f[i], y.f[i]))
		}
		return r
	case *ArrayV:
		y := b.(*ArrayV)
		r := ts.BoolC(true)
		for i := range x.e {
			r = ts.And(r, in.equal(x.e[i], y.e[i]))
		}
		return r
	case SliceV:
		// only comparison with nil is legal
		if y, ok := b.(SliceV); ok {
			if y.base.obj == nil {
				return ts.BoolC(x.base.obj == nil)
			}
			if x.base.obj == nil {
				return ts.BoolC(y.base.obj == nil)
			}
		}
	case MapV:
		y := b.(MapV)
		return ts.BoolC(x.m == y.m)
	case FuncV:
		y := b.(FuncV)
		return ts.BoolC(x.fn == y.fn && x.builtin == y.builtin)
	case ChanV:
		y := b.(ChanV)
		return ts.BoolC(x.c == y.c)
	}
	unsup("equality on %T", a)
	return nil
}

// ---------- binop ----------

func (in *Interp) binop(op token.Token, xt types.Type, x, y Value, yt types.Type) Value {
	ts := in.ts
	switch op {
	case token.EQL:
		return in.equal(x, y)
	case token.NEQ:
		return ts.Not(in.equal(x, y))
	}
	if sx_, ok := x.(StrV); ok {
		sy := y.(StrV)
		switch op {
		case token.ADD:
			return sx_ + sy
		case token.LSS:
			return ts.BoolC(sx_ < sy)
		case token.LEQ:
			return ts.BoolC(sx_ <= sy)
		case token.GTR:
			return ts.BoolC(sx_ > sy)
		case token.GEQ:
			return ts.BoolC(sx_ >= sy)
		}
		unsup("string op %v", op)
	}
	a, ok1 := x.(*Term)
	b, ok2 := y.(*Term)
	if !ok1 || !ok2 {
		unsup("binop %v on %T,%T", op, x, y)
	}
	s, signed, ok := scalarSort(xt)
	if !ok {
		unsup("binop on type %v", xt)
	}
	if s == SBool {
		switch op {
		case token.AND, token.LAND:
			return ts.And(a, b)
		case token.OR, token.LOR:
			return ts.Or(a, b)
		}
		unsup("bool op %v", op)
	}
	if s == SF64 {
		switch op {
		case token.ADD:
			return ts.FAdd(a, b)
		case token.SUB:
			return ts.FSub(a, b)
		case token.MUL:
			if in.p.absFP && !a.IsConst() && !b.IsConst() && a.sort == SF64 && b.sort == SF64 {
				return in.absMulDiv(true, a, b)
			}
			return ts.FMul(a, b)
		case token.QUO:
			if in.p.absFP && !a.IsConst() && !b.IsConst() && a.sort == SF64 && b.sort == SF64 {
				return in.absMulDiv(false, a, b)
			}
			return ts.FDiv(a, b)
		case token.LSS:
			return ts.FLt(a, b)
		case token.LEQ:
			return ts.FLe(a, b)
		case token.GTR:
			return ts.FLt(b, a)
		case token.GEQ:
			return ts.FLe(b, a)
		}
		unsup("float op %v", op)
	}
	w := s.Width()
	switch op {
	case token.ADD:
		return ts.Add(a, b)
	case token.SUB:
		return ts.Sub(a, b)
	case token.MUL:
		return ts.Mul(a, b)
	case token.QUO, token.REM:
		nz := ts.Not(ts.Eq(b, ts.BV(w, 0)))
		if nz.IsConst() {
			if !nz.Bool() {
				in.rtPanic("integer divide by zero")
			}
		} else {
			in.p.Check("no-panic/divzero", nz, in.where(), true)
		}
		if op == token.QUO {
			if signed {
				return ts.bin(OpSDiv, a, b)
			}
			return ts.bin(OpUDiv, a, b)
		}
		if signed {
			return ts.bin(OpSRem, a, b)
		}
		return ts.bin(OpURem, a, b)
	case token.AND:
		return ts.BAnd(a, b)
	case token.OR:
		return ts.BOr(a, b)
	case token.XOR:
		return ts.BXor(a, b)
	case token.AND_NOT:
		return ts.BAnd(a, ts.BNot(b))
	case token.SHL, token.SHR:
		if isMI(a) {
			sop := OpShl
			if op == token.SHR {
				sop = OpAShr
				if !signed {
					unsup("logical shift of a mathematical integer")
				}
			}
			return ts.bin(sop, a, b)
		}
		if isMI(b) {
			unsup("shift by a mathematical-integer amount")
		}
		_, ysigned, _ := scalarSort(yt)
		wy := b.sort.Width()
		if ysigned {
			neg := ts.SLt(b, ts.BV(wy, 0))
			if neg.IsConst() {
				if neg.Bool() {
					in.rtPanic("negative shift amount")
				}
			} else {
				in.p.Check("no-panic/negshift", ts.Not(neg), in.where(), true)
			}
		}
		sop := OpShl
		if op == token.SHR {
			sop = OpLShr
			if signed {
				sop = OpAShr
			}
		}
		if wy <= w {
			return ts.bin(sop, a, ts.ZExt(b, w))
		}
		big := ts.ULe(ts.BV(wy, uint64(w)), b)
		var over *Term
		if sop == OpAShr {
			over = ts.bin(OpAShr, a, ts.BV(w, uint64(w-1)))
		} else {
			over = ts.BV(w, 0)
		}
		return ts.Ite(big, over, ts.bin(sop, a, ts.Extract(b, w)))
	case token.LSS:
		if signed {
			return ts.SLt(a, b)
		}
		return ts.ULt(a, b)
	case token.LEQ:
		if signed {
			return ts.SLe(a, b)
		}
		return ts.ULe(a, b)
	case token.GTR:
		if signed {
			return ts.SLt(b, a)
		}
		return ts.ULt(b, a)
	case token.GEQ:
		if signed {
			return ts.SLe(b, a)
		}
		return ts.ULe(b, a)
	}
	unsup("int op %v", op)
	return nil
}

func (in *Interp) convert(v Value, from, to types.Type, fnName string) Value {
	ts := in.ts
	fs, fsigned, fok := scalarSort(from)
	tsrt, tsigned, tok := scalarSort(to)
	if fok && tok {
		a := v.(*Term)
		if isMI(a) && fs.IsBV() {
			// mathematical integer source
			switch {
			case tsrt == SF64:
				if in.w.concretizeIntToFloat[fnName] {
					k := in.p.Concretize(a, "int->float in "+fnName)
					return ts.FFromInt(ts.BV(64, k), true)
				}
				return a
			case tsrt.IsBV():
				w := tsrt.Width()
				if w == 64 && tsigned {
					return a
				}
				var lo, hi *Term
				if tsigned {
					lo, hi = ts.BV(64, uint64(-(int64(1) << uint(w-1)))), ts.BV(64, uint64(int64(1)<<uint(w-1)-1))
				} else if w == 64 {
					lo, hi = ts.BV(64, 0), ts.BV(64, 1<<62)
				} else {
					lo, hi = ts.BV(64, 0), ts.BV(64, uint64(1)<<uint(w)-1)
				}
				in.p.Require(ts.And(ts.SLe(lo, a), ts.SLe(a, hi)), fmt.Sprintf("conversion of a mathematical integer to %v not provably in range at %s", to, in.where()))
				return a
			}
		}
		if a.sort == SDy && fs == SF64 && tsrt.IsBV() {
			if a.scale == 0 {
				return a
			}
			unsup("float->int conversion of a fractional dyadic value")
		}
		switch {
		case fs.IsBV() && tsrt.IsBV():
			if fsigned {
				return ts.SExt(a, tsrt.Width())
			}
			return ts.ZExt(a, tsrt.Width())
		case fs.IsBV() && tsrt == SF64:
			if !a.IsConst() && in.w.concretizeIntToFloat[fnName] {
				k := in.p.Concretize(a, "int->float in "+fnName)
				a = ts.BV(fs.Width(), k)
			}
			return ts.FFromInt(a, fsigned)
		case fs == SF64 && tsrt.IsBV():
			if !tsigned {
				if a.IsConst() {
					f := a.F64()
					return ts.BV(tsrt.Width(), uint64(f))
				}
				unsup("float -> unsigned conversion of symbolic value")
			}
			r := ts.FToSInt64(a)
			return ts.Extract(r, tsrt.Width())
		case fs == SF64 && tsrt == SF64:
			return a
		case fs == SBool && tsrt == SBool:
			return a
		}
	}
	// string <-> []byte conversions on concrete data
	if sv, ok := v.(StrV); ok {
		if sl, ok := to.Underlying().(*types.Slice); ok {
			if b, ok := sl.Elem().Underlying().(*types.Basic); ok && b.Kind() == types.Uint8 {
				e := make([]Value, len(sv))
				for i := range e {
					e[i] = ts.BV(8, uint64(sv[i]))
				}
				o := in.newObj(&ArrayV{e}, "str2bytes")
				n := ts.BV(64, uint64(len(sv)))
				return SliceV{base: PtrV{obj: o}, off: ts.BV(64, 0), len: n, cap: n}
			}
		}
		if _, ok := to.Underlying().(*types.Basic); ok {
			return sv
		}
	}
	if _, ok := v.(PtrV); ok {
		return v // unsafe.Pointer <-> *T
	}
	unsup("conversion %v -> %v", from, to)
	return nil
}

// ---------- slices ----------

func (in *Interp) mkSlice(elemZero Value, n, c uint64) SliceV {
	e := make([]Value, c)
	for i := range e {
		e[i] = elemZero
	}
	o := in.newObj(&ArrayV{e}, "make")
	return SliceV{base: PtrV{obj: o}, off: in.ts.BV(64, 0), len: in.ts.BV(64, n), cap: in.ts.BV(64, c)}
}

func (in *Interp) sliceElemPtr(s SliceV, i *Term) PtrV {
	return PtrV{obj: s.base.obj, path: appendSel(s.base.path, Sel{idx: in.ts.Add(s.off, i)})}
}

func (in *Interp) backing(s SliceV) *ArrayV {
	if s.base.obj == nil {
		return &ArrayV{}
	}
	return in.load(s.base).(*ArrayV)
}

func growCap(oldCap, need uint64) uint64 {
	// runtime.growslice without size-class rounding (see DESIGN: capacity after growth is approximate)
	newcap := oldCap
	doublecap := newcap + newcap
	if need > doublecap {
		return need
	}
	const threshold = 256
	if oldCap < threshold {
		return doublecap
	}
	for newcap < need {
		newcap += (newcap + 3*threshold) / 4
	}
	return newcap
}

func (in *Interp) doAppend(s SliceV, t SliceV, elemZero func() Value) SliceV {
	ts := in.ts
	tl := in.constU(t.len, "append arg length")
	if tl == 0 {
		return s
	}
	sl := in.constU(s.len, "append dst length")
	sc := in.constU(s.cap, "append dst capacity")
	src := in.backing(t)
	so := in.constU(t.off, "append src offset")
	if sl+tl <= sc && s.base.obj != nil {
		do := in.constU(s.off, "append dst offset")
		dst := in.backing(s)
		e := make([]Value, len(dst.e))
		copy(e, dst.e)
		for i := uint64(0); i < tl; i++ {
			e[do+sl+i] = src.e[so+i]
		}
		in.store(s.base, &ArrayV{e})
		return SliceV{base: s.base, off: s.off, len: ts.BV(64, sl+tl), cap: s.cap}
	}
	nc := growCap(sc, sl+tl)
	e := make([]Value, nc)
	if sl > 0 {
		do := in.constU(s.off, "append dst offset")
		dst := in.backing(s)
		copy(e, dst.e[do:do+sl])
	}
	for i := uint64(0); i < tl; i++ {
		e[sl+i] = src.e[so+i]
	}
	if nc > sl+tl {
		z := elemZero()
		for i := sl + tl; i < nc; i++ {
			e[i] = z
		}
	}
	o := in.newObj(&ArrayV{e}, "append")
	return SliceV{base: PtrV{obj: o}, off: ts.BV(64, 0), len: ts.BV(64, sl+tl), cap: ts.BV(64, nc)}
}

func (in *Interp) doCopy(dst, src SliceV) *Term {
	ts := in.ts
	// n = min(len(dst), len(src))
	lt := ts.ULt(dst.len, src.len)
	n := ts.Ite(lt, dst.len, src.len)
	if n.IsConst() && n.U64() == 0 {
		return n
	}
	if dst.base.obj == nil || src.base.obj == nil {
		return ts.BV(64, 0)
	}
	sa := in.backing(src)
	da := in.backing(dst)
	e := make([]Value, len(da.e))
	copy(e, da.e)
	if n.IsConst() && dst.off.IsConst() && src.off.IsConst() {
		do, so := dst.off.U64(), src.off.U64()
		for i := uint64(0); i < n.U64(); i++ {
			e[do+i] = sa.e[so+i]
		}
		in.store(dst.base, &ArrayV{e})
		return n
	}
	// non-scalar elements (e.g. a slice of slices) cannot be merged with ite: concretise the geometry
	scalarElems := true
	for _, x := range sa.e {
		if _, ok := x.(*Term); !ok {
			scalarElems = false
			break
		}
	}
	if !scalarElems {
		nn := in.constU(n, "copy length")
		do := in.constU(dst.off, "copy destination offset")
		so := in.constU(src.off, "copy source offset")
		sa = in.backing(src)
		tmp := make([]Value, nn)
		copy(tmp, sa.e[so:so+nn])
		for i := uint64(0); i < nn; i++ {
			e[do+i] = tmp[i]
		}
		in.store(dst.base, &ArrayV{e})
		return ts.BV(64, nn)
	}
	// symbolic: for each destination cell j: if do <= j < do+n then src[so + (j-do)] else old
	for j := range e {
		jj := ts.BV(64, uint64(j))
		inr := ts.And(ts.ULe(dst.off, jj), ts.ULt(jj, ts.Add(dst.off, n)))
		if inr.IsConst() && !inr.Bool() {
			continue
		}
		sidx := ts.Add(src.off, ts.Sub(jj, dst.off))
		var sv Value
		if sidx.IsConst() {
			if sidx.U64() >= uint64(len(sa.e)) {
				// cannot be in range
				continue
			}
			sv = sa.e[sidx.U64()]
		} else {
			var acc Value
			for k := len(sa.e) - 1; k >= 0; k-- {
				if acc == nil {
					acc = sa.e[k]
					continue
				}
				m, ok := in.mergeVal(ts.Eq(sidx, ts.BV(64, uint64(k))), sa.e[k], acc)
				if !ok {
					unsup("copy of non-scalar elements with symbolic offsets")
				}
				acc = m
			}
			sv = acc
		}
		m, ok := in.mergeVal(inr, sv, e[j])
		if !ok {
			unsup("copy of non-scalar elements with symbolic offsets")
		}
		e[j] = m
	}
	in.store(dst.base, &ArrayV{e})
	return n
}

// ---------- maps ----------

func (in *Interp) mapFind(m *MapObj, k Value) *mapEntry {
	for _, e := range m.entries {
		c := in.equal(k, e.k)
		if c.IsConst() {
			if c.Bool() {
				return e
			}
			continue
		}
		if in.p.Branch(c) {
			return e
		}
	}
	return nil
}

// ---------- calls ----------

func (in *Interp) callFunc(fv FuncV, args []Value, site ssa.Instruction) Value {
	if fv.builtin != nil {
		unsup("indirect builtin call")
	}
	if fv.fn == nil {
		in.rtPanic("call of nil function")
	}
	return in.call(fv.fn, fv.binds, args)
}

func (in *Interp) call(fn *ssa.Function, binds []Value, args []Value) Value {
	name := fn.String()
	if fn.Pkg != nil && (fn.Name() == "init" || strings.HasPrefix(fn.Name(), "init#")) && !in.w.initAllowed[fn.Pkg.Pkg.Path()] {
		return nil
	}
	if st, ok := stubs[name]; ok {
		return st(in, args)
	}
	if strings.HasPrefix(fn.Name(), "zzv") {
		if h, ok := intrinsics[fn.Name()]; ok {
			return h(in, args)
		}
		unsup("unknown intrinsic %s", fn.Name())
	}
	if fn.Blocks == nil {
		if fn.Synthetic != "" || fn.Pkg == nil {
			// e.g. generic instantiation wrappers
		}
		unsup("call to function without body: %s", name)
	}
	if in.depth > 200 {
		unsup("call depth exceeded at %s", name)
	}
	in.depth++
	savedFn, savedPos := in.curFn, in.curPos
	fr := &Frame{fn: fn, locals: make(map[ssa.Value]Value, 32)}
	for i, p := range fn.Params {
		fr.locals[p] = args[i]
	}
	for i, fvv := range fn.FreeVars {
		fr.locals[fvv] = binds[i]
	}
	r := in.run(fr)
	if k, ok := codecPairs[name]; ok {
		if k.encode {
			if t, isT := args[1].(*Term); isT && !t.IsConst() {
				in.encoded[k.family] = append(in.encoded[k.family], t)
			}
		} else {
			r = in.simplifyDecoded(k.family, r)
		}
	}
	in.depth--
	in.curFn, in.curPos = savedFn, savedPos
	return r
}

func (in *Interp) get(fr *Frame, v ssa.Value) Value {
	switch x := v.(type) {
	case *ssa.Const:
		return in.constVal(x)
	case *ssa.Global:
		return PtrV{obj: in.globalObj(x)}
	case *ssa.Function:
		return FuncV{fn: x}
	case *ssa.Builtin:
		return FuncV{builtin: x}
	}
	r, ok := fr.locals[v]
	if !ok {
		panic(fmt.Sprintf("interp: no value for %s (%T) in %s", v.Name(), v, fr.fn))
	}
	return r
}

func (in *Interp) globalObj(g *ssa.Global) *Obj {
	if o, ok := in.globals[g]; ok {
		return o
	}
	o := in.newObj(in.zero(g.Type().(*types.Pointer).Elem()), g.String())
	in.globals[g] = o
	return o
}

func (in *Interp) run(fr *Frame) Value {
	fn := fr.fn
	in.curFn = fn
	var prev *ssa.BasicBlock
	var phiOverride map[*ssa.Phi]Value
	b := fn.Blocks[0]
	visits := map[*ssa.BasicBlock]int{}
	for {
		visits[b]++
		if visits[b] > in.p.unwind {
			in.p.Inconclusive(fmt.Sprintf("unwinding bound %d reached at %s block %d", in.p.unwind, fn.String(), b.Index))
		}
		var next *ssa.BasicBlock
		// phis first (parallel assignment)
		nphi := 0
		var phiVals []Value
		for _, ins := range b.Instrs {
			phi, ok := ins.(*ssa.Phi)
			if !ok {
				break
			}
			nphi++
			if phiOverride != nil {
				phiVals = append(phiVals, phiOverride[phi])
				continue
			}
			for i, pred := range b.Preds {
				if pred == prev {
					phiVals = append(phiVals, in.get(fr, phi.Edges[i]))
					break
				}
			}
		}
		phiOverride = nil
		for i := 0; i < nphi; i++ {
			fr.locals[b.Instrs[i].(*ssa.Phi)] = phiVals[i]
		}
		for _, ins := range b.Instrs[nphi:] {
			in.steps++
			in.fnInstr[fn]++
			if p := ins.Pos(); p.IsValid() {
				in.curPos = p
			}
			if in.steps > in.p.maxSteps {
				in.p.Inconclusive(fmt.Sprintf("step budget %d exhausted in %s", in.p.maxSteps, fn.String()))
			}
			switch x := ins.(type) {
			case *ssa.If:
				c := in.get(fr, x.Cond).(*Term)
				if !c.IsConst() && !in.p.decided(c) {
					if j, ov, from := in.tryMerge(fr, b, c); j != nil {
						next = j
						phiOverride = ov
						b = from
						break
					}
				}
				if in.p.Branch(c) {
					next = b.Succs[0]
				} else {
					next = b.Succs[1]
				}
			case *ssa.Jump:
				next = b.Succs[0]
			case *ssa.Return:
				in.runDefers(fr)
				switch len(x.Results) {
				case 0:
					return nil
				case 1:
					return in.get(fr, x.Results[0])
				}
				tv := make(TupleV, len(x.Results))
				for i, r := range x.Results {
					tv[i] = in.get(fr, r)
				}
				return tv
			case *ssa.Panic:
				v := in.get(fr, x.X)
				in.rtPanic("explicit panic: " + in.describe(v))
			case *ssa.RunDefers:
				in.runDefers(fr)
			default:
				in.exec(fr, ins)
			}
		}
		prev = b
		b = next
		in.curFn = fn
	}
}

func (in *Interp) runDefers(fr *Frame) {
	for len(fr.defers) > 0 {
		d := fr.defers[len(fr.defers)-1]
		fr.defers = fr.defers[:len(fr.defers)-1]
		d()
	}
}

func (in *Interp) describe(v Value) string {
	switch x := v.(type) {
	case IfaceV:
		if x.typ == nil {
			return "nil"
		}
		return fmt.Sprintf("%v(%s)", x.typ, in.describe(x.val))
	case StrV:
		return string(x)
	case *Term:
		if x.IsConst() {
			return fmt.Sprintf("%d", x.U64())
		}
		return "<sym>"
	case PtrV:
		if x.obj != nil {
			return "&" + in.describe(in.load(x))
		}
		return "nil"
	case *StructV:
		var parts []string
		for _, f := range x.f {
			parts = append(parts, in.describe(f))
		}
		return "{" + strings.Join(parts, ",") + "}"
	}
	return fmt.Sprintf("%T", v)
}

func (in *Interp) exec(fr *Frame, ins ssa.Instruction) {
	ts := in.ts
	switch x := ins.(type) {
	case *ssa.Alloc:
		o := in.newObj(in.zero(x.Type().(*types.Pointer).Elem()), x.Comment)
		fr.locals[x] = PtrV{obj: o}
	case *ssa.BinOp:
		fr.locals[x] = in.binop(x.Op, x.X.Type(), in.get(fr, x.X), in.get(fr, x.Y), x.Y.Type())
	case *ssa.UnOp:
		v := in.get(fr, x.X)
		switch x.Op {
		case token.MUL:
			fr.locals[x] = in.load(v.(PtrV))
		case token.NOT:
			fr.locals[x] = ts.Not(v.(*Term))
		case token.SUB:
			t := v.(*Term)
			if t.sort == SF64 || t.sort == SDy {
				fr.locals[x] = ts.FNeg(t)
			} else {
				fr.locals[x] = ts.Neg(t)
			}
		case token.XOR:
			fr.locals[x] = ts.BNot(v.(*Term))
		case token.ARROW:
			fr.locals[x] = in.chanRecv(v.(ChanV), x.CommaOk, x.Type())
		default:
			unsup("unop %v", x.Op)
		}
	case *ssa.Call:
		fr.locals[x] = in.doCall(fr, &x.Call, x)
	case *ssa.Defer:
		call := x.Call
		// evaluate now, run later
		fn, binds, args, bi := in.prepCall(fr, &call)
		fr.defers = append(fr.defers, func() {
			if bi != nil {
				in.builtin(bi, args, nil)
				return
			}
			in.call(fn, binds, args)
		})
	case *ssa.Go:
		in.goStmt(fr, x)
	case *ssa.ChangeType:
		fr.locals[x] = in.get(fr, x.X)
	case *ssa.Convert:
		fr.locals[x] = in.convert(in.get(fr, x.X), x.X.Type(), x.Type(), fr.fn.Name())
	case *ssa.ChangeInterface:
		fr.locals[x] = in.get(fr, x.X)
	case *ssa.MakeInterface:
		fr.locals[x] = IfaceV{typ: x.X.Type(), val: in.get(fr, x.X)}
	case *ssa.MakeClosure:
		binds := make([]Value, len(x.Bindings))
		for i, b := range x.Bindings {
			binds[i] = in.get(fr, b)
		}
		fr.locals[x] = FuncV{fn: x.Fn.(*ssa.Function), binds: binds}
	case *ssa.MakeMap:
		in.nextObj++
		fr.locals[x] = MapV{m: &MapObj{id: in.nextObj}}
	case *ssa.MakeChan:
		in.nextObj++
		fr.locals[x] = ChanV{c: &ChanObj{id: in.nextObj}}
	case *ssa.MakeSlice:
		n := in.toBV64(in.get(fr, x.Len).(*Term), true)
		c := in.toBV64(in.get(fr, x.Cap).(*Term), true)
		nn := in.constU(n, "make length")
		cc := in.constU(c, "make capacity")
		if int64(nn) < 0 || int64(cc) < int64(nn) {
			in.rtPanic("makeslice: len out of range")
		}
		if cc > uint64(in.p.maxAlloc) {
			in.p.Inconclusive(fmt.Sprintf("allocation of %d cells exceeds the configured bound %d", cc, in.p.maxAlloc))
		}
		fr.locals[x] = in.mkSlice(in.zero(x.Type().Underlying().(*types.Slice).Elem()), nn, cc)
	case *ssa.Slice:
		fr.locals[x] = in.sliceOp(fr, x)
	case *ssa.FieldAddr:
		p := in.get(fr, x.X).(PtrV)
		if p.obj == nil {
			in.rtPanic("nil pointer dereference (field address)")
		}
		fr.locals[x] = PtrV{obj: p.obj, path: appendSel(p.path, Sel{field: x.Field})}
	case *ssa.Field:
		fr.locals[x] = in.get(fr, x.X).(*StructV).f[x.Field]
	case *ssa.IndexAddr:
		i := in.get(fr, x.Index).(*Term)
		_, isigned, _ := scalarSort(x.Index.Type())
		i64 := in.toBV64(i, isigned)
		switch c := in.get(fr, x.X).(type) {
		case SliceV:
			in.checkIndex(i64, c.len)
			fr.locals[x] = in.sliceElemPtr(c, i64)
		case PtrV: // *array
			if c.obj == nil {
				in.rtPanic("nil pointer dereference (array index)")
			}
			n := x.X.Type().Underlying().(*types.Pointer).Elem().Underlying().(*types.Array).Len()
			in.checkIndex(i64, ts.BV(64, uint64(n)))
			fr.locals[x] = PtrV{obj: c.obj, path: appendSel(c.path, Sel{idx: i64})}
		default:
			unsup("IndexAddr on %T", c)
		}
	case *ssa.Index:
		i := in.get(fr, x.Index).(*Term)
		_, isigned, _ := scalarSort(x.Index.Type())
		i64 := in.toBV64(i, isigned)
		switch c := in.get(fr, x.X).(type) {
		case *ArrayV:
			in.checkIndex(i64, ts.BV(64, uint64(len(c.e))))
			fr.locals[x] = in.sel(c, []Sel{{idx: i64}})
		case StrV:
			in.checkIndex(i64, ts.BV(64, uint64(len(c))))
			if i64.IsConst() {
				fr.locals[x] = ts.BV(8, uint64(c[i64.U64()]))
			} else {
				var acc *Term
				for k := len(c) - 1; k >= 0; k-- {
					bv := ts.BV(8, uint64(c[k]))
					if acc == nil {
						acc = bv
					} else {
						acc = ts.Ite(ts.Eq(i64, ts.BV(64, uint64(k))), bv, acc)
					}
				}
				fr.locals[x] = acc
			}
		default:
			unsup("Index on %T", c)
		}
	case *ssa.Lookup:
		switch c := in.get(fr, x.X).(type) {
		case MapV:
			k := in.get(fr, x.Index)
			var e *mapEntry
			if c.m != nil {
				e = in.mapFind(c.m, k)
			}
			var v Value
			if e != nil {
				v = e.v
			} else {
				v = in.zero(x.X.Type().Underlying().(*types.Map).Elem())
			}
			if x.CommaOk {
				fr.locals[x] = TupleV{v, ts.BoolC(e != nil)}
			} else {
				fr.locals[x] = v
			}
		case StrV:
			i := in.toBV64(in.get(fr, x.Index).(*Term), true)
			in.checkIndex(i, ts.BV(64, uint64(len(c))))
			k := in.constU(i, "string index")
			fr.locals[x] = ts.BV(8, uint64(c[k]))
		default:
			unsup("Lookup on %T", c)
		}
	case *ssa.MapUpdate:
		m := in.get(fr, x.Map).(MapV)
		if m.m == nil {
			in.rtPanic("assignment to entry in nil map")
		}
		k := in.get(fr, x.Key)
		v := in.get(fr, x.Value)
		if e := in.mapFind(m.m, k); e != nil {
			e.v = v
		} else {
			m.m.nextID++
			m.m.entries = append(m.m.entries, &mapEntry{k: k, v: v, id: m.m.nextID})
		}
	case *ssa.Range:
		switch c := in.get(fr, x.X).(type) {
		case MapV:
			it := &IterV{}
			if c.m != nil {
				it.m = c.m
				live := make([]*mapEntry, 0, len(c.m.entries))
				for _, e := range c.m.entries {
					if !e.dead {
						live = append(live, e)
					}
				}
				it.order = in.p.Permute(live)
			}
			fr.locals[x] = it
		default:
			unsup("range over %T", c)
		}
	case *ssa.Next:
		it := in.get(fr, x.Iter).(*IterV)
		tt := x.Type().(*types.Tuple)
		for it.pos < len(it.order) && it.order[it.pos].dead {
			it.pos++
		}
		if it.pos >= len(it.order) {
			kz, vz := Value(nil), Value(nil)
			if tt.At(1).Type() != nil {
				if _, inv := tt.At(1).Type().(*types.Basic); !(inv && tt.At(1).Type().(*types.Basic).Kind() == types.Invalid) {
					kz = in.zero(tt.At(1).Type())
				}
			}
			if b, inv := tt.At(2).Type().(*types.Basic); !(inv && b.Kind() == types.Invalid) {
				vz = in.zero(tt.At(2).Type())
			}
			fr.locals[x] = TupleV{ts.BoolC(false), kz, vz}
		} else {
			e := it.order[it.pos]
			it.pos++
			fr.locals[x] = TupleV{ts.BoolC(true), e.k, e.v}
		}
	case *ssa.Extract:
		fr.locals[x] = in.get(fr, x.Tuple).(TupleV)[x.Index]
	case *ssa.Store:
		in.store(in.get(fr, x.Addr).(PtrV), in.get(fr, x.Val))
	case *ssa.TypeAssert:
		fr.locals[x] = in.typeAssert(in.get(fr, x.X).(IfaceV), x)
	case *ssa.Send:
		in.chanSend(in.get(fr, x.Chan).(ChanV), in.get(fr, x.X))
	case *ssa.DebugRef:
	default:
		unsup("instruction %T (%s) in %s", ins, ins, fr.fn)
	}
}

func (in *Interp) typeAssert(iv IfaceV, x *ssa.TypeAssert) Value {
	ok := false
	var res Value
	if iv.typ != nil {
		if it, isI := x.AssertedType.Underlying().(*types.Interface); isI {
			if types.Implements(iv.typ, it) {
				ok = true
				res = iv
			}
		} else if types.Identical(iv.typ, x.AssertedType) {
			ok = true
			res = iv.val
		}
	}
	if x.CommaOk {
		if !ok {
			res = in.zero(x.AssertedType)
		}
		return TupleV{res, in.ts.BoolC(ok)}
	}
	if !ok {
		in.rtPanic(fmt.Sprintf("interface conversion: %v is not %v", iv.typ, x.AssertedType))
	}
	return res
}

func (in *Interp) sliceOp(fr *Frame, x *ssa.Slice) Value {
	ts := in.ts
	xv := in.get(fr, x.X)
	opt := func(v ssa.Value) *Term {
		if v == nil {
			return nil
		}
		_, sg, _ := scalarSort(v.Type())
		return in.toBV64(in.get(fr, v).(*Term), sg)
	}
	lo, hi, mx := opt(x.Low), opt(x.High), opt(x.Max)
	if sv, ok := xv.(StrV); ok {
		l, h := uint64(0), uint64(len(sv))
		if lo != nil {
			l = in.constU(lo, "string slice low")
		}
		if hi != nil {
			h = in.constU(hi, "string slice high")
		}
		if l > h || h > uint64(len(sv)) {
			in.rtPanic("slice bounds out of range (string)")
		}
		return sv[l:h]
	}
	var base PtrV
	var off, ln, cp *Term
	switch c := xv.(type) {
	case SliceV:
		base, off, ln, cp = c.base, c.off, c.len, c.cap
	case PtrV:
		if c.obj == nil {
			in.rtPanic("slice of nil array pointer")
		}
		n := x.X.Type().Underlying().(*types.Pointer).Elem().Underlying().(*types.Array).Len()
		base, off = c, ts.BV(64, 0)
		ln = ts.BV(64, uint64(n))
		cp = ln
	default:
		unsup("slice of %T", xv)
	}
	if lo == nil {
		lo = ts.BV(64, 0)
	}
	if hi == nil {
		hi = ln
	}
	if mx == nil {
		mx = cp
	}
	// 0 <= lo <= hi <= max <= cap
	c := ts.And(ts.ULe(lo, hi), ts.And(ts.ULe(hi, mx), ts.ULe(mx, cp)))
	if c.IsConst() {
		if !c.Bool() {
			in.rtPanic(fmt.Sprintf("slice bounds out of range [%d:%d] with capacity %d", int64(lo.U64()), int64(hi.U64()), cp.U64()))
		}
	} else {
		in.p.Check("no-panic/slice-bounds", c, in.where(), true)
	}
	return SliceV{base: base, off: ts.Add(off, lo), len: ts.Sub(hi, lo), cap: ts.Sub(mx, lo)}
}

func (in *Interp) prepCall(fr *Frame, c *ssa.CallCommon) (*ssa.Function, []Value, []Value, *ssa.Builtin) {
	args := make([]Value, 0, len(c.Args)+1)
	if c.IsInvoke() {
		recv := in.get(fr, c.Value).(IfaceV)
		if recv.typ == nil {
			in.rtPanic("method call on nil interface: " + c.Method.Name())
		}
		ms := in.w.prog.MethodSets.MethodSet(recv.typ)
		sel := ms.Lookup(c.Method.Pkg(), c.Method.Name())
		if sel == nil {
			unsup("method %s not found on %v", c.Method.Name(), recv.typ)
		}
		fn := in.w.prog.MethodValue(sel)
		if fn == nil {
			unsup("no method value for %s on %v", c.Method.Name(), recv.typ)
		}
		args = append(args, recv.val)
		for _, a := range c.Args {
			args = append(args, in.get(fr, a))
		}
		return fn, nil, args, nil
	}
	for _, a := range c.Args {
		args = append(args, in.get(fr, a))
	}
	switch f := c.Value.(type) {
	case *ssa.Builtin:
		return nil, nil, args, f
	case *ssa.Function:
		return f, nil, args, nil
	}
	fv := in.get(fr, c.Value).(FuncV)
	if fv.fn == nil {
		in.rtPanic("call of nil function value")
	}
	return fv.fn, fv.binds, args, nil
}

func (in *Interp) doCall(fr *Frame, c *ssa.CallCommon, site *ssa.Call) Value {
	fn, binds, args, bi := in.prepCall(fr, c)
	if bi != nil {
		return in.builtin(bi, args, site)
	}
	return in.call(fn, binds, args)
}

func (in *Interp) builtin(b *ssa.Builtin, args []Value, site *ssa.Call) Value {
	ts := in.ts
	if b.Name() == "recover" {
		return IfaceV{}
	}
	switch b.Name() {
	case "len":
		switch c := args[0].(type) {
		case SliceV:
			return c.len
		case StrV:
			return ts.BV(64, uint64(len(c)))
		case MapV:
			if c.m == nil {
				return ts.BV(64, 0)
			}
			n := 0
			for _, e := range c.m.entries {
				if !e.dead {
					n++
				}
			}
			return ts.BV(64, uint64(n))
		case ChanV:
			return ts.BV(64, uint64(len(c.c.buf)))
		}
	case "cap":
		switch c := args[0].(type) {
		case SliceV:
			return c.cap
		}
	case "append":
		s := args[0].(SliceV)
		switch t := args[1].(type) {
		case SliceV:
			et := site.Type().Underlying().(*types.Slice).Elem()
			return in.doAppend(s, t, func() Value { return in.zero(et) })
		case StrV:
			e := make([]Value, len(t))
			for i := range e {
				e[i] = ts.BV(8, uint64(t[i]))
			}
			o := in.newObj(&ArrayV{e}, "strbytes")
			n := ts.BV(64, uint64(len(t)))
			return in.doAppend(s, SliceV{base: PtrV{obj: o}, off: ts.BV(64, 0), len: n, cap: n}, func() Value { return ts.BV(8, 0) })
		}
	case "copy":
		d := args[0].(SliceV)
		switch s := args[1].(type) {
		case SliceV:
			return in.doCopy(d, s)
		}
	case "delete":
		m := args[0].(MapV)
		if m.m != nil {
			if e := in.mapFind(m.m, args[1]); e != nil {
				e.dead = true
				ne := m.m.entries[:0:0]
				for _, x := range m.m.entries {
					if x != e {
						ne = append(ne, x)
					}
				}
				m.m.entries = ne
			}
		}
		return nil
	case "close":
		c := args[0].(ChanV)
		c.c.closed = true
		return nil
	case "panic":
		in.rtPanic("explicit panic: " + in.describe(args[0]))
	case "min", "max":
		// go1.21 builtins on ordered types
		unsup("builtin %s", b.Name())
	case "print", "println":
		return nil
	case "recover":
		// no panic is ever in flight in this interpreter (a panic ends the path as a finding)
		return IfaceV{}
	}
	if len(args) == 0 {
		unsup("builtin %s", b.Name())
	}
	unsup("builtin %s on %T", b.Name(), args[0])
	return nil
}

// ---------- goroutines / channels (producer-consumer coroutines only) ----------
// A `go` statement is recorded as a pending producer. A receive on a channel with an empty buffer
// runs the pending producers to completion first (each send is buffered). This models exactly the
// single-producer/single-consumer use in Store.Bins(); anything richer is unsupported.

func (in *Interp) goStmt(fr *Frame, x *ssa.Go) {
	call := x.Call
	fn, binds, args, bi := in.prepCall(fr, &call)
	if bi != nil {
		unsup("go builtin")
	}
	in.pendingGo = append(in.pendingGo, func() { in.call(fn, binds, args) })
}

func (in *Interp) chanSend(c ChanV, v Value) {
	if c.c == nil {
		unsup("send on nil channel")
	}
	if c.c.closed {
		in.rtPanic("send on closed channel")
	}
	c.c.buf = append(c.c.buf, v)
}

func (in *Interp) chanRecv(c ChanV, commaOk bool, t types.Type) Value {
	if c.c == nil {
		unsup("receive on nil channel")
	}
	for len(c.c.buf) == 0 && !c.c.closed && len(in.pendingGo) > 0 {
		g := in.pendingGo[0]
		in.pendingGo = in.pendingGo[1:]
		g()
	}
	var et types.Type
	if commaOk {
		et = t.(*types.Tuple).At(0).Type()
	} else {
		et = t
	}
	if len(c.c.buf) > 0 {
		v := c.c.buf[0]
		c.c.buf = c.c.buf[1:]
		if commaOk {
			return TupleV{v, in.ts.BoolC(true)}
		}
		return v
	}
	if c.c.closed {
		if commaOk {
			return TupleV{in.zero(et), in.ts.BoolC(false)}
		}
		return in.zero(et)
	}
	unsup("receive would block forever (deadlock)")
	return nil
}


// ---------- branch merging (if-conversion of side-effect-free diamonds) ----------
//
// A conditional whose sides are either the join block itself or a single-predecessor block made only
// of pure instructions that jumps to the join block is executed without forking: both sides are
// evaluated and the join block's phis become ite terms. This covers a && b, a || b, min/max style
// selections. Anything that would need the solver, could panic, or touches memory other than loads
// aborts the speculation and falls back to ordinary forking.

type specAbort struct{}

var pureCalls = map[string]bool{"zzvAnd": true, "zzvOr": true, "zzvImplies": true, "zzvIteInt": true, "zzvIteF64": true, "zzvSameBits": true,
	"math.IsNaN": true, "math.IsInf": true, "math.Abs": true, "math.Float64bits": true, "math.Float64frombits": true, "math.Inf": true, "math.NaN": true}

func pureBlock(b *ssa.BasicBlock) bool {
	if len(b.Preds) != 1 || len(b.Succs) != 1 {
		return false
	}
	for i, ins := range b.Instrs {
		if i == len(b.Instrs)-1 {
			_, ok := ins.(*ssa.Jump)
			return ok
		}
		switch x := ins.(type) {
		case *ssa.BinOp, *ssa.FieldAddr, *ssa.Field, *ssa.Convert, *ssa.ChangeType, *ssa.Extract, *ssa.IndexAddr, *ssa.Index, *ssa.DebugRef:
		case *ssa.UnOp:
			if x.Op == token.ARROW {
				return false
			}
		case *ssa.Call:
			switch f := x.Call.Value.(type) {
			case *ssa.Builtin:
				if f.Name() != "len" && f.Name() != "cap" {
					return false
				}
			case *ssa.Function:
				if x.Call.IsInvoke() || !(pureCalls[f.Name()] || pureCalls[f.String()]) {
					return false
				}
			default:
				return false
			}
		default:
			return false
		}
	}
	return false
}

func (in *Interp) tryMerge(fr *Frame, b *ssa.BasicBlock, c *Term) (join *ssa.BasicBlock, ov map[*ssa.Phi]Value, from *ssa.BasicBlock) {
	if in.p.noMerge {
		return nil, nil, nil
	}
	s0, s1 := b.Succs[0], b.Succs[1]
	var j *ssa.BasicBlock
	// side i is "direct" (the join block itself) or a pure block jumping to the join
	switch {
	case in.w.isPure(s0) && s0.Succs[0] == s1:
		j = s1
	case in.w.isPure(s1) && s1.Succs[0] == s0:
		j = s0
	case in.w.isPure(s0) && in.w.isPure(s1) && s0.Succs[0] == s1.Succs[0]:
		j = s0.Succs[0]
	default:
		return nil, nil, nil
	}
	if j == b {
		return nil, nil, nil
	}
	// the join must have phis only for merged values; evaluate both sides speculatively
	ok := true
	func() {
		defer func() {
			if r := recover(); r != nil {
				if _, isAbort := r.(specAbort); isAbort {
					ok = false
					return
				}
				if _, isUnsup := r.(unsupported); isUnsup {
					ok = false
					return
				}
				panic(r)
			}
		}()
		in.p.spec++
		defer func() { in.p.spec-- }()
		sides := []*ssa.BasicBlock{s0, s1}
		preds := make([]*ssa.BasicBlock, 2)
		for i, s := range sides {
			if s == j {
				preds[i] = b
				continue
			}
			preds[i] = s
			for _, ins := range s.Instrs[:len(s.Instrs)-1] {
				in.steps++
				in.fnInstr[fr.fn]++
				in.exec(fr, ins)
			}
		}
		ov = map[*ssa.Phi]Value{}
		for _, ins := range j.Instrs {
			phi, isPhi := ins.(*ssa.Phi)
			if !isPhi {
				break
			}
			var vals [2]Value
			for i := 0; i < 2; i++ {
				found := false
				for k, pred := range j.Preds {
					if pred == preds[i] {
						vals[i] = in.get(fr, phi.Edges[k])
						found = true
						break
					}
				}
				if !found {
					panic(specAbort{})
				}
			}
			m, good := in.mergeVal(c, vals[0], vals[1])
			if !good {
				panic(specAbort{})
			}
			ov[phi] = m
		}
	}()
	if !ok {
		return nil, nil, nil
	}
	in.p.run.merged++
	return j, ov, b
}


// ---------- proven simplification of decode(encode(x)) ----------
// When a primitive decoder returns a symbolic value, the engine looks for a term that was passed to
// the matching encoder earlier on the path and evaluates to the same value under the current model;
// if the solver proves the two equal under the path condition, the decoded value is replaced by the
// (much smaller) encoded term. This is sound (an equality proven under the path condition) and lets
// downstream index arithmetic fold. The outcome is recorded as a decision so that replays agree.

type codecPair struct {
	family string
	encode bool
}

var codecPairs = map[string]codecPair{
	"github.com/DataDog/sketches-go/ddsketch/encoding.EncodeUvarint64":  {"uvarint", true},
	"github.com/DataDog/sketches-go/ddsketch/encoding.DecodeUvarint64":  {"uvarint", false},
	"github.com/DataDog/sketches-go/ddsketch/encoding.EncodeVarint64":   {"varint", true},
	"github.com/DataDog/sketches-go/ddsketch/encoding.DecodeVarint64":   {"varint", false},
	"github.com/DataDog/sketches-go/ddsketch/encoding.EncodeVarfloat64": {"varfloat", true},
	"github.com/DataDog/sketches-go/ddsketch/encoding.DecodeVarfloat64": {"varfloat", false},
	"github.com/DataDog/sketches-go/ddsketch/encoding.EncodeFloat64LE":  {"float64le", true},
	"github.com/DataDog/sketches-go/ddsketch/encoding.DecodeFloat64LE":  {"float64le", false},
}

func (in *Interp) simplifyDecoded(family string, r Value) Value {
	tv, ok := r.(TupleV)
	if !ok || len(tv) != 2 {
		return r
	}
	val, ok := tv[0].(*Term)
	if !ok || val.IsConst() || in.p.spec > 0 || in.p.noSimplify {
		return r
	}
	cands := in.encoded[family]
	if len(cands) == 0 {
		return r
	}
	k := in.p.ProvenEqual(val, cands)
	if k < 0 {
		return r
	}
	return TupleV{cands[k], tv[1]}
}
