package main

// Term DAG: the symbolic scalar values of the engine.
//
// Every scalar the interpreter manipulates (integers of every width, bools, float64) is a *Term.
// Constant terms are the concrete case; every constructor folds constants with the machine's own
// arithmetic (bit-exact for float64), so concrete code runs "natively".
//
// Sorts:  Bool, BV8/16/32/64, F64 (exact IEEE double, SMT FloatingPoint 11 53),
//         Dy (dyadic fixed point: the float64 value m*2^-scale with m an SMT Int; see DESIGN §4 F2).

import (
	"fmt"
	"math"
	"math/big"
	"math/bits"
	"strings"
)

type Sort uint8

const (
	SBool Sort = iota
	SBV8
	SBV16
	SBV32
	SBV64
	SF64
	SDy
)

func (s Sort) Width() int {
	switch s {
	case SBV8:
		return 8
	case SBV16:
		return 16
	case SBV32:
		return 32
	case SBV64:
		return 64
	}
	return 0
}
func (s Sort) IsBV() bool { return s >= SBV8 && s <= SBV64 }
func bvSort(w int) Sort {
	switch w {
	case 8:
		return SBV8
	case 16:
		return SBV16
	case 32:
		return SBV32
	case 64:
		return SBV64
	}
	panic(fmt.Sprintf("bad bv width %d", w))
}
func (s Sort) SMT() string {
	switch s {
	case SBool:
		return "Bool"
	case SBV8, SBV16, SBV32, SBV64:
		return fmt.Sprintf("(_ BitVec %d)", s.Width())
	case SF64:
		return "(_ FloatingPoint 11 53)"
	case SDy:
		return "Int"
	}
	return "?"
}

type Op uint8

const (
	OpConst Op = iota
	OpVar      // declared symbol (BV, Bool, or Int for Dy)
	// bool
	OpNot
	OpAnd
	OpOr
	OpIte // any sort
	OpEq  // any sort (BV, Bool; F64 uses OpFEq)
	// bv
	OpAdd
	OpSub
	OpMul
	OpUDiv
	OpURem
	OpSDiv
	OpSRem
	OpBAnd
	OpBOr
	OpBXor
	OpBNot
	OpNeg
	OpShl
	OpLShr
	OpAShr
	OpULt
	OpULe
	OpSLt
	OpSLe
	OpZExt    // p1 = target width
	OpSExt    // p1 = target width
	OpExtract // p1 = target width (low bits)
	OpLZ64    // leading zeros of BV64 (result BV64)
	OpTZ64    // trailing zeros of BV64 (result BV64)
	// fp
	OpFAdd
	OpFSub
	OpFMul
	OpFDiv
	OpFNeg
	OpFAbs
	OpFSqrt
	OpFFloor
	OpFCeil
	OpFTrunc
	OpFMin // math.Min semantic is handled by interpreter; these are raw smt fp.min/max (unused)
	OpFLt
	OpFLe
	OpFEq  // IEEE ==
	OpFIsNaN
	OpFIsInf
	OpFIsNeg
	OpFFromBits // BV64 -> F64
	OpFBits     // F64 -> BV64 (aux const + axiom)
	OpFFromSInt // BV (signed) -> F64, RNE
	OpFFromUInt // BV (unsigned) -> F64, RNE
	OpFToSInt64 // F64 -> BV64, truncation, amd64 semantics for out-of-range (MinInt64)
	OpUF        // uninterpreted function: name, args; result sort given
	// dyadic (Int-sorted)
	OpDyAdd
	OpDyNeg
	OpDyScale // multiply m by constant integer big (name holds decimal)
	OpDyLt
	OpDyLe
	OpDyEq
	OpDyDiv // floor division by positive constant (name)
	OpDyMod // floor modulus by positive constant (name)
	OpDyLin // linear normal form, see dylin.go
)

type Term struct {
	id    int
	op    Op
	sort  Sort
	args  []*Term
	cu    uint64 // const payload: bool (0/1), bv value, f64 bits
	name  string // var / uf name / dyscale const
	p1    int    // ext/extract width
	scale int    // Dy: value = m * 2^-scale
	bnd   float64 // Dy: upper bound on |m| (exact integers < 2^53)
	key   string
	coefs []string // OpDyLin coefficients (decimal)
}

func (t *Term) IsConst() bool { return t.op == OpConst }
func (t *Term) Bool() bool    { return t.cu != 0 }
func (t *Term) U64() uint64   { return t.cu }
func (t *Term) F64() float64  { return math.Float64frombits(t.cu) }
func (t *Term) S64() int64 { // sign-extended from sort width
	w := t.sort.Width()
	if w == 64 {
		return int64(t.cu)
	}
	sh := uint(64 - w)
	return int64(t.cu<<sh) >> sh
}

// TermStore hash-conses terms for one path.
type TermStore struct {
	tab  map[string]*Term
	convMemo map[int]bool
	noPromote bool
	next int
	// ordered list of declared symbols
	vars []*Term
}

func NewTermStore() *TermStore { return &TermStore{tab: map[string]*Term{}, convMemo: map[int]bool{}} }

func (ts *TermStore) intern(t *Term) *Term {
	var sb strings.Builder
	fmt.Fprintf(&sb, "%d|%d|%x|%s|%d|%d", t.op, t.sort, t.cu, t.name, t.p1, t.scale)
	for _, c := range t.coefs {
		sb.WriteString(";" + c)
	}
	for _, a := range t.args {
		fmt.Fprintf(&sb, ",%d", a.id)
	}
	k := sb.String()
	if e, ok := ts.tab[k]; ok {
		return e
	}
	t.id = ts.next
	ts.next++
	t.key = k
	ts.tab[k] = t
	if t.op == OpVar {
		ts.vars = append(ts.vars, t)
	}
	return t
}

func maskW(v uint64, w int) uint64 {
	if w >= 64 {
		return v
	}
	return v & ((uint64(1) << uint(w)) - 1)
}

func (ts *TermStore) BoolC(b bool) *Term {
	c := uint64(0)
	if b {
		c = 1
	}
	return ts.intern(&Term{op: OpConst, sort: SBool, cu: c})
}
func (ts *TermStore) BV(w int, v uint64) *Term {
	return ts.intern(&Term{op: OpConst, sort: bvSort(w), cu: maskW(v, w)})
}
func (ts *TermStore) F64C(f float64) *Term {
	b := math.Float64bits(f)
	if f != f {
		b = 0x7ff8000000000001 // canonical NaN
	}
	return ts.intern(&Term{op: OpConst, sort: SF64, cu: b})
}
func (ts *TermStore) Var(name string, s Sort) *Term {
	return ts.intern(&Term{op: OpVar, sort: s, name: name})
}
func (ts *TermStore) DyVar(name string, scale int, bnd float64) *Term {
	return ts.intern(&Term{op: OpVar, sort: SDy, name: name, scale: scale, bnd: bnd})
}

type unsupported struct{ msg string }

func unsup(format string, a ...interface{}) { panic(unsupported{fmt.Sprintf(format, a...)}) }

// ---------- boolean ----------
func (ts *TermStore) Not(a *Term) *Term {
	if a.IsConst() {
		return ts.BoolC(!a.Bool())
	}
	if a.op == OpNot {
		return a.args[0]
	}
	return ts.intern(&Term{op: OpNot, sort: SBool, args: []*Term{a}})
}
func (ts *TermStore) And(a, b *Term) *Term {
	if a.IsConst() {
		if a.Bool() {
			return b
		}
		return a
	}
	if b.IsConst() {
		if b.Bool() {
			return a
		}
		return b
	}
	if a == b {
		return a
	}
	return ts.intern(&Term{op: OpAnd, sort: SBool, args: []*Term{a, b}})
}
func (ts *TermStore) Or(a, b *Term) *Term {
	if a.IsConst() {
		if a.Bool() {
			return a
		}
		return b
	}
	if b.IsConst() {
		if b.Bool() {
			return b
		}
		return a
	}
	if a == b {
		return a
	}
	return ts.intern(&Term{op: OpOr, sort: SBool, args: []*Term{a, b}})
}
func (ts *TermStore) Implies(a, b *Term) *Term { return ts.Or(ts.Not(a), b) }
func (ts *TermStore) Ite(c, a, b *Term) *Term {
	if c.IsConst() {
		if c.Bool() {
			return a
		}
		return b
	}
	if a == b {
		return a
	}
	if a.sort != b.sort {
		// F64 const vs Dy
		if a.sort == SDy && b.sort == SF64 && b.IsConst() {
			b = ts.dyOfConst(b)
		} else if b.sort == SDy && a.sort == SF64 && a.IsConst() {
			a = ts.dyOfConst(a)
		} else if a.sort == SDy && b.sort == SF64 && ts.dyConv(b) {
			b = ts.toDy(b)
		} else if b.sort == SDy && a.sort == SF64 && ts.dyConv(a) {
			a = ts.toDy(a)
		} else if a.sort == SDy && b.sort.IsBV() && b.IsConst() {
			b = ts.miOf(b)
		} else if b.sort == SDy && a.sort.IsBV() && a.IsConst() {
			a = ts.miOf(a)
		} else {
			unsup("ite over different sorts %v/%v", a.sort, b.sort)
		}
	}
	if a.sort == SBool {
		if a.IsConst() && b.IsConst() {
			if a.Bool() {
				return c
			}
			return ts.Not(c)
		}
	}
	t := &Term{op: OpIte, sort: a.sort, args: []*Term{c, a, b}}
	if a.sort == SDy {
		a, b = ts.dyAlign(a, b)
		t.args = []*Term{c, a, b}
		t.scale = a.scale
		t.bnd = math.Max(a.bnd, b.bnd)
	}
	return ts.intern(t)
}
func (ts *TermStore) Eq(a, b *Term) *Term {
	if (isMI(a) && b.sort.IsBV()) || (isMI(b) && a.sort.IsBV()) {
		return ts.FEq(ts.miOf(a), ts.miOf(b))
	}
	if a.sort == SF64 || a.sort == SDy || b.sort == SF64 || b.sort == SDy {
		return ts.FEq(a, b)
	}
	if a.sort != b.sort {
		panic(fmt.Sprintf("Eq sort mismatch %v %v", a.sort, b.sort))
	}
	if a == b {
		return ts.BoolC(true)
	}
	if a.IsConst() && b.IsConst() {
		return ts.BoolC(a.cu == b.cu)
	}
	if a.sort == SBool {
		if a.IsConst() {
			a, b = b, a
		}
		if b.IsConst() {
			if b.Bool() {
				return a
			}
			return ts.Not(a)
		}
	}
	if a.id > b.id {
		a, b = b, a
	}
	return ts.intern(&Term{op: OpEq, sort: SBool, args: []*Term{a, b}})
}

// ---------- bit-vectors ----------
func (ts *TermStore) bin(op Op, a, b *Term) *Term {
	if isMI(a) || isMI(b) {
		return ts.miBin(op, a, b)
	}
	if a.sort != b.sort {
		panic(fmt.Sprintf("bv op %d sort mismatch %v %v", op, a.sort, b.sort))
	}
	w := a.sort.Width()
	if a.IsConst() && b.IsConst() {
		if v, ok := foldBV(op, w, a.cu, b.cu); ok {
			return ts.BV(w, v)
		}
	}
	// light algebraic simplification
	switch op {
	case OpAdd:
		if a.IsConst() && a.cu == 0 {
			return b
		}
		if b.IsConst() && b.cu == 0 {
			return a
		}
		// (x + c1) + c2
		if b.IsConst() && a.op == OpAdd && a.args[1].IsConst() {
			return ts.bin(OpAdd, a.args[0], ts.BV(w, a.args[1].cu+b.cu))
		}
		if a.IsConst() {
			a, b = b, a
		}
		// (x - y) + y => x
		if a.op == OpSub && a.args[1] == b {
			return a.args[0]
		}
	case OpSub:
		if b.IsConst() && b.cu == 0 {
			return a
		}
		if a == b {
			return ts.BV(w, 0)
		}
		if b.IsConst() {
			return ts.bin(OpAdd, a, ts.BV(w, -b.cu))
		}
		// (x + c) - x => c ; (x+c1) - (x+c2) => c1-c2
		if a.op == OpAdd && a.args[0] == b {
			return a.args[1]
		}
		if a.op == OpAdd && b.op == OpAdd && a.args[0] == b.args[0] && a.args[1].IsConst() && b.args[1].IsConst() {
			return ts.BV(w, a.args[1].cu-b.args[1].cu)
		}
		if b.op == OpAdd && b.args[0] == a && b.args[1].IsConst() {
			return ts.BV(w, -b.args[1].cu)
		}
	case OpMul:
		if a.IsConst() {
			a, b = b, a
		}
		if b.IsConst() {
			if b.cu == 0 {
				return b
			}
			if b.cu == 1 {
				return a
			}
		}
	case OpBAnd:
		if a.IsConst() {
			a, b = b, a
		}
		if b.IsConst() {
			if b.cu == 0 {
				return b
			}
			if b.cu == maskW(^uint64(0), w) {
				return a
			}
		}
		if a == b {
			return a
		}
	case OpBOr, OpBXor:
		if a.IsConst() {
			a, b = b, a
		}
		if b.IsConst() && b.cu == 0 {
			return a
		}
	case OpShl, OpLShr, OpAShr:
		if b.IsConst() && b.cu == 0 {
			return a
		}
	}
	return ts.intern(&Term{op: op, sort: a.sort, args: []*Term{a, b}})
}

func (ts *TermStore) miBin(op Op, a, b *Term) *Term {
	switch op {
	case OpAdd:
		return ts.Add(a, b)
	case OpSub:
		return ts.Sub(a, b)
	case OpMul:
		return ts.Mul(a, b)
	}
	// remaining operators need a constant right operand
	if !(b.sort.IsBV() && b.IsConst()) {
		unsup("operator %d on mathematical integers needs a constant right operand", op)
	}
	k := b.S64()
	switch op {
	case OpSDiv:
		if k == 0 {
			unsup("division by zero constant")
		}
		return ts.miDivTrunc(a, k)
	case OpSRem:
		if k == 0 {
			unsup("division by zero constant")
		}
		q := ts.miDivTrunc(a, k)
		return ts.Sub(a, ts.Mul(q, ts.BV(64, uint64(k))))
	case OpAShr:
		if k < 0 || k > 52 {
			unsup("shift amount %d on mathematical integer", k)
		}
		return ts.miCanon(ts.miDivFloor(a, int64(1)<<uint(k)))
	case OpShl:
		if k < 0 || k > 52 {
			unsup("shift amount %d on mathematical integer", k)
		}
		return ts.Mul(a, ts.BV(64, uint64(1)<<uint(k)))
	case OpBAnd:
		if k > 0 && (k+1)&k == 0 { // mask 2^j - 1
			return ts.miCanon(ts.miMod(a, k+1))
		}
		if k < 0 && (-k)&(-k-1) == 0 { // mask -2^j: clears the low j bits
			return ts.Sub(a, ts.miCanon(ts.miMod(a, -k)))
		}
	}
	unsup("operator %d with constant %d on a mathematical integer", op, k)
	return nil
}

func sx(v uint64, w int) int64 {
	sh := uint(64 - w)
	return int64(v<<sh) >> sh
}

func foldBV(op Op, w int, a, b uint64) (uint64, bool) {
	switch op {
	case OpAdd:
		return a + b, true
	case OpSub:
		return a - b, true
	case OpMul:
		return a * b, true
	case OpUDiv:
		if b == 0 {
			return maskW(^uint64(0), w), true
		}
		return a / b, true
	case OpURem:
		if b == 0 {
			return a, true
		}
		return a % b, true
	case OpSDiv:
		if b == 0 {
			return 0, false
		}
		sa, sb := sx(a, w), sx(b, w)
		if sb == -1 {
			return uint64(-sa), true
		}
		return uint64(sa / sb), true
	case OpSRem:
		if b == 0 {
			return 0, false
		}
		sa, sb := sx(a, w), sx(b, w)
		if sb == -1 {
			return 0, true
		}
		return uint64(sa % sb), true
	case OpBAnd:
		return a & b, true
	case OpBOr:
		return a | b, true
	case OpBXor:
		return a ^ b, true
	case OpShl:
		if b >= uint64(w) {
			return 0, true
		}
		return a << b, true
	case OpLShr:
		if b >= uint64(w) {
			return 0, true
		}
		return a >> b, true
	case OpAShr:
		if b >= uint64(w) {
			b = uint64(w - 1)
		}
		return uint64(sx(a, w) >> b), true
	}
	return 0, false
}

// Mathematical-integer representation ("MI"): a Go int held as a dyadic term with scale 0. All
// integer constructors below dispatch to exact Int arithmetic when an operand is MI; bound tracking
// (|m| < 2^53) guarantees that machine arithmetic cannot wrap, so MI and two's complement agree.
func isMI(t *Term) bool { return t.sort == SDy }

func (ts *TermStore) miOf(t *Term) *Term {
	if t.sort == SDy {
		if t.scale != 0 {
			unsup("fractional dyadic value used as an integer")
		}
		return t
	}
	if t.sort.IsBV() && t.IsConst() {
		v := t.S64()
		return ts.intern(&Term{op: OpConst, sort: SDy, name: fmt.Sprint(v), scale: 0, bnd: math.Abs(float64(v))})
	}
	unsup("mixing a mathematical-integer value with a symbolic bit-vector")
	return nil
}

func (ts *TermStore) miConst(v int64) *Term {
	return ts.intern(&Term{op: OpConst, sort: SDy, name: fmt.Sprint(v), scale: 0, bnd: math.Abs(float64(v))})
}

// canonical result: a constant MI folds back to a BV64 constant
func (ts *TermStore) miCanon(t *Term) *Term {
	if t.sort == SDy && t.op == OpConst && t.scale == 0 {
		m := dyConstBig(t)
		if m.IsInt64() {
			return ts.BV(64, uint64(m.Int64()))
		}
	}
	return t
}

func (ts *TermStore) Add(a, b *Term) *Term {
	if isMI(a) || isMI(b) {
		return ts.miCanon(ts.FAdd(ts.miOf(a), ts.miOf(b)))
	}
	return ts.bin(OpAdd, a, b)
}
func (ts *TermStore) Sub(a, b *Term) *Term {
	if isMI(a) || isMI(b) {
		return ts.miCanon(ts.FSub(ts.miOf(a), ts.miOf(b)))
	}
	return ts.bin(OpSub, a, b)
}
func (ts *TermStore) Mul(a, b *Term) *Term {
	if isMI(a) || isMI(b) {
		return ts.miCanon(ts.FMul(ts.miOf(a), ts.miOf(b)))
	}
	return ts.bin(OpMul, a, b)
}

// floor division / modulus of an MI value by a positive constant
func (ts *TermStore) miDivFloor(a *Term, k int64) *Term {
	a = ts.miOf(a)
	if k <= 0 {
		unsup("division of a mathematical integer by a non-positive constant")
	}
	if k == 1 {
		return a
	}
	if a.op == OpConst {
		m := dyConstBig(a)
		q := new(big.Int).Div(m, big.NewInt(k)) // Euclidean == floor for positive divisor
		return ts.miCanon(ts.intern(&Term{op: OpConst, sort: SDy, name: q.String(), bnd: math.Abs(float64(q.Int64()))}))
	}
	// (k*X + c) div k = X + (c div k) when every coefficient is a multiple of k
	if a.op == OpDyLin {
		l := ts.linOf(a)
		bk := big.NewInt(k)
		all := true
		for _, c := range l.coefs {
			if new(big.Int).Mod(c, bk).Sign() != 0 {
				all = false
				break
			}
		}
		if all {
			q := lin{k: new(big.Int).Div(l.k, bk), atoms: l.atoms, coefs: make([]*big.Int, len(l.coefs))}
			for i, c := range l.coefs {
				q.coefs[i] = new(big.Int).Quo(c, bk)
			}
			return ts.miCanon(ts.mkLin(q, 0, a.bnd/float64(k)+1))
		}
	}
	return ts.intern(&Term{op: OpDyDiv, sort: SDy, args: []*Term{a}, name: fmt.Sprint(k), bnd: a.bnd/float64(k) + 1})
}
func (ts *TermStore) miMod(a *Term, k int64) *Term {
	a = ts.miOf(a)
	if k <= 0 {
		unsup("modulus of a mathematical integer by a non-positive constant")
	}
	if a.op == OpConst {
		m := dyConstBig(a)
		q := new(big.Int).Mod(m, big.NewInt(k))
		return ts.miCanon(ts.intern(&Term{op: OpConst, sort: SDy, name: q.String(), bnd: float64(q.Int64())}))
	}
	if a.op == OpDyLin {
		l := ts.linOf(a)
		bk := big.NewInt(k)
		all := true
		for _, c := range l.coefs {
			if new(big.Int).Mod(c, bk).Sign() != 0 {
				all = false
				break
			}
		}
		if all {
			r := new(big.Int).Mod(l.k, bk)
			return ts.BV(64, uint64(r.Int64()))
		}
	}
	return ts.intern(&Term{op: OpDyMod, sort: SDy, args: []*Term{a}, name: fmt.Sprint(k), bnd: float64(k)})
}
// truncated division (Go's /) by a non-zero constant
func (ts *TermStore) miDivTrunc(a *Term, k int64) *Term {
	a = ts.miOf(a)
	neg := k < 0
	if neg {
		k = -k
	}
	zero := ts.miConst(0)
	q := ts.Ite(ts.FLe(zero, a), ts.miDivFloor(a, k), ts.FNeg(ts.miOf(ts.miDivFloor(ts.FNeg(a), k))))
	if neg {
		q = ts.FNeg(ts.miOf(q))
	}
	return ts.miCanon(q)
}

func (ts *TermStore) BAnd(a, b *Term) *Term { return ts.bin(OpBAnd, a, b) }
func (ts *TermStore) BOr(a, b *Term) *Term  { return ts.bin(OpBOr, a, b) }
func (ts *TermStore) BXor(a, b *Term) *Term { return ts.bin(OpBXor, a, b) }

func (ts *TermStore) BNot(a *Term) *Term {
	if isMI(a) {
		return ts.Sub(ts.Neg(a), ts.BV(64, 1))
	}
	w := a.sort.Width()
	if a.IsConst() {
		return ts.BV(w, ^a.cu)
	}
	return ts.intern(&Term{op: OpBNot, sort: a.sort, args: []*Term{a}})
}
func (ts *TermStore) Neg(a *Term) *Term {
	if isMI(a) {
		return ts.miCanon(ts.FNeg(a))
	}
	w := a.sort.Width()
	if a.IsConst() {
		return ts.BV(w, -a.cu)
	}
	return ts.intern(&Term{op: OpNeg, sort: a.sort, args: []*Term{a}})
}

func (ts *TermStore) cmp(op Op, a, b *Term) *Term {
	if isMI(a) || isMI(b) {
		a, b = ts.miOf(a), ts.miOf(b)
		switch op {
		case OpSLt:
			return ts.FLt(a, b)
		case OpSLe:
			return ts.FLe(a, b)
		}
		// unsigned comparison of 64-bit patterns: negative values are the large ones
		zero := ts.miConst(0)
		an, bn := ts.FLt(a, zero), ts.FLt(b, zero)
		var lt *Term
		if op == OpULt {
			lt = ts.FLt(a, b)
		} else {
			lt = ts.FLe(a, b)
		}
		// (a>=0 & b<0) | (sign equal & a<b)
		return ts.Or(ts.And(ts.Not(an), bn), ts.And(ts.Eq(an, bn), lt))
	}
	if a.sort != b.sort {
		panic(fmt.Sprintf("cmp sort mismatch %v %v", a.sort, b.sort))
	}
	w := a.sort.Width()
	if a.IsConst() && b.IsConst() {
		var r bool
		switch op {
		case OpULt:
			r = a.cu < b.cu
		case OpULe:
			r = a.cu <= b.cu
		case OpSLt:
			r = sx(a.cu, w) < sx(b.cu, w)
		case OpSLe:
			r = sx(a.cu, w) <= sx(b.cu, w)
		}
		return ts.BoolC(r)
	}
	if a == b {
		return ts.BoolC(op == OpULe || op == OpSLe)
	}
	return ts.intern(&Term{op: op, sort: SBool, args: []*Term{a, b}})
}
func (ts *TermStore) ULt(a, b *Term) *Term { return ts.cmp(OpULt, a, b) }
func (ts *TermStore) ULe(a, b *Term) *Term { return ts.cmp(OpULe, a, b) }
func (ts *TermStore) SLt(a, b *Term) *Term { return ts.cmp(OpSLt, a, b) }
func (ts *TermStore) SLe(a, b *Term) *Term { return ts.cmp(OpSLe, a, b) }

func (ts *TermStore) ZExt(a *Term, w int) *Term {
	if isMI(a) {
		return a
	}
	aw := a.sort.Width()
	if aw == w {
		return a
	}
	if aw > w {
		return ts.Extract(a, w)
	}
	if a.IsConst() {
		return ts.BV(w, a.cu)
	}
	return ts.intern(&Term{op: OpZExt, sort: bvSort(w), args: []*Term{a}, p1: w})
}
func (ts *TermStore) SExt(a *Term, w int) *Term {
	if isMI(a) {
		return a
	}
	aw := a.sort.Width()
	if aw == w {
		return a
	}
	if aw > w {
		return ts.Extract(a, w)
	}
	if a.IsConst() {
		return ts.BV(w, uint64(sx(a.cu, aw)))
	}
	return ts.intern(&Term{op: OpSExt, sort: bvSort(w), args: []*Term{a}, p1: w})
}
func (ts *TermStore) Extract(a *Term, w int) *Term {
	aw := a.sort.Width()
	if aw == w {
		return a
	}
	if a.IsConst() {
		return ts.BV(w, a.cu)
	}
	if (a.op == OpZExt || a.op == OpSExt) && a.args[0].sort.Width() >= w {
		return ts.Extract(a.args[0], w)
	}
	return ts.intern(&Term{op: OpExtract, sort: bvSort(w), args: []*Term{a}, p1: w})
}
func (ts *TermStore) LZ64(a *Term) *Term {
	if a.IsConst() {
		return ts.BV(64, uint64(bits.LeadingZeros64(a.cu)))
	}
	return ts.intern(&Term{op: OpLZ64, sort: SBV64, args: []*Term{a}})
}
func (ts *TermStore) TZ64(a *Term) *Term {
	if a.IsConst() {
		return ts.BV(64, uint64(bits.TrailingZeros64(a.cu)))
	}
	return ts.intern(&Term{op: OpTZ64, sort: SBV64, args: []*Term{a}})
}

// ---------- floats (F1 exact / F2 dyadic) ----------

func f64ToInt64AMD(f float64) int64 {
	if f != f || f >= 9223372036854775808.0 || f < -9223372036854775808.0 {
		return math.MinInt64
	}
	return int64(f)
}

// dyadic decomposition of a constant float: f = m * 2^-scale, m integer (big), minimal scale >= 0.
func dyadicOf(f float64) (*big.Int, int, bool) {
	if f != f || math.IsInf(f, 0) {
		return nil, 0, false
	}
	if f == 0 {
		return big.NewInt(0), 0, true
	}
	fr, e := math.Frexp(f) // f = fr * 2^e, |fr| in [0.5,1)
	m := int64(fr * (1 << 53))
	e -= 53
	for m%2 == 0 {
		m /= 2
		e++
	}
	bm := big.NewInt(m)
	if e >= 0 {
		bm.Lsh(bm, uint(e))
		return bm, 0, true
	}
	return bm, -e, true
}

func (ts *TermStore) dyOfConst(c *Term) *Term {
	m, sc, ok := dyadicOf(c.F64())
	if !ok {
		unsup("non-finite constant %v combined with dyadic value", c.F64())
	}
	bf, _ := new(big.Float).SetInt(new(big.Int).Abs(m)).Float64()
	return ts.intern(&Term{op: OpConst, sort: SDy, name: m.String(), scale: sc, bnd: bf})
}

func (ts *TermStore) dyScaleTo(a *Term, scale int) *Term {
	if a.scale == scale {
		return a
	}
	if scale < a.scale {
		panic("dyScaleTo: cannot reduce scale")
	}
	k := new(big.Int).Lsh(big.NewInt(1), uint(scale-a.scale))
	return ts.dyMulConst(a, k, scale-a.scale)
}

// multiply integer part by k and add addScale to scale: value' = m*k * 2^-(scale+addScale)
func (ts *TermStore) dyMulConst(a *Term, k *big.Int, addScale int) *Term {
	l := ts.linAt(a, a.scale).scaled(k)
	kf := bigAbsF(k)
	return ts.mkLin(l, a.scale+addScale, a.bnd*kf)
}

func (ts *TermStore) dyAlign(a, b *Term) (*Term, *Term) {
	g := a.scale
	if b.scale > g {
		g = b.scale
	}
	return ts.dyScaleTo(a, g), ts.dyScaleTo(b, g)
}

const dyLimit = 9007199254740992.0 // 2^53

func (ts *TermStore) toDy(a *Term) *Term {
	if a.sort == SDy {
		return a
	}
	if a.sort == SF64 && a.IsConst() {
		return ts.dyOfConst(a)
	}
	if a.sort == SF64 && a.op == OpIte {
		// a selection among values that are themselves convertible (e.g. ite(c, 1.0, 0.0))
		return ts.Ite(a.args[0], ts.toDy(a.args[1]), ts.toDy(a.args[2]))
	}
	if a.sort == SF64 {
		// exact-IEEE sums of convertible values are exact as long as the dyadic bound holds
		switch a.op {
		case OpFAdd:
			return ts.FAdd(ts.toDy(a.args[0]), ts.toDy(a.args[1]))
		case OpFSub:
			return ts.FSub(ts.toDy(a.args[0]), ts.toDy(a.args[1]))
		case OpFNeg:
			return ts.FNeg(ts.toDy(a.args[0]))
		}
	}
	unsup("mixing exact-IEEE symbolic float with dyadic value")
	return nil
}

func isDyPair(a, b *Term) bool { return a.sort == SDy || b.sort == SDy }

// dyConv: an exact-IEEE term that is a selection/sum of finite constants only (e.g. ite(c,1.0,0.0)):
// such values are handled in the dyadic representation, where sums are exact integers.
func (ts *TermStore) dyConv(t *Term) bool {
	if t.sort == SDy {
		return true
	}
	if t.sort != SF64 {
		return false
	}
	if t.IsConst() {
		f := t.F64()
		return f == f && !math.IsInf(f, 0)
	}
	if v, ok := ts.convMemo[t.id]; ok {
		return v
	}
	r := false
	switch t.op {
	case OpIte:
		r = ts.dyConv(t.args[1]) && ts.dyConv(t.args[2])
	case OpFAdd, OpFSub:
		r = ts.dyConv(t.args[0]) && ts.dyConv(t.args[1])
	case OpFNeg:
		r = ts.dyConv(t.args[0])
	}
	ts.convMemo[t.id] = r
	return r
}

// promote: when two exact-IEEE operands are both constant selections (not both plain constants),
// move the computation to the dyadic representation
func (ts *TermStore) promote(a, b *Term) (*Term, *Term) {
	if ts.noPromote {
		return a, b
	}
	if a.sort == SF64 && b.sort == SF64 && !(a.IsConst() && b.IsConst()) && ts.dyConv(a) && ts.dyConv(b) {
		return ts.toDy(a), ts.toDy(b)
	}
	return a, b
}

func dyConstBig(a *Term) *big.Int { m, _ := new(big.Int).SetString(a.name, 10); return m }

// value of a Dy constant as float64 (exact when within range)
func dyConstF64(a *Term) float64 {
	m := dyConstBig(a)
	f := new(big.Float).SetInt(m)
	f.SetMantExp(f, -a.scale)
	r, _ := f.Float64()
	return r
}

func (ts *TermStore) FAdd(a, b *Term) *Term {
	if a.IsConst() && b.IsConst() && a.sort == SF64 && b.sort == SF64 {
		return ts.F64C(a.F64() + b.F64())
	}
	a, b = ts.promote(a, b)
	if isDyPair(a, b) {
		return ts.dyAddLin(ts.toDy(a), ts.toDy(b), false)
	}
	if a.id > b.id {
		a, b = b, a // IEEE addition is commutative: canonical operand order
	}
	return ts.intern(&Term{op: OpFAdd, sort: SF64, args: []*Term{a, b}})
}
func (ts *TermStore) FNeg(a *Term) *Term {
	if a.sort == SDy {
		return ts.dyMulConst(a, big.NewInt(-1), 0)
	}
	if a.IsConst() {
		return ts.F64C(-a.F64())
	}
	return ts.intern(&Term{op: OpFNeg, sort: SF64, args: []*Term{a}})
}
func (ts *TermStore) FSub(a, b *Term) *Term {
	if a.IsConst() && b.IsConst() && a.sort == SF64 && b.sort == SF64 {
		return ts.F64C(a.F64() - b.F64())
	}
	a, b = ts.promote(a, b)
	if isDyPair(a, b) {
		return ts.dyAddLin(ts.toDy(a), ts.toDy(b), true)
	}
	return ts.intern(&Term{op: OpFSub, sort: SF64, args: []*Term{a, b}})
}
func (ts *TermStore) FMul(a, b *Term) *Term {
	if a.IsConst() && b.IsConst() && a.sort == SF64 && b.sort == SF64 {
		return ts.F64C(a.F64() * b.F64())
	}
	// x * 1.0 is x for every x (including NaN, infinities and signed zeros)
	if a.sort == SF64 && b.sort == SF64 {
		if a.IsConst() && a.cu == 0x3ff0000000000000 {
			return b
		}
		if b.IsConst() && b.cu == 0x3ff0000000000000 {
			return a
		}
	}
	if isDyPair(a, b) {
		// one side must be a constant
		var d, c *Term
		if a.sort == SDy && b.IsConst() {
			d, c = a, b
		} else if b.sort == SDy && a.IsConst() {
			d, c = b, a
		} else {
			unsup("product of two symbolic dyadic values")
		}
		var m *big.Int
		var sc int
		if c.sort == SDy {
			m, sc = dyConstBig(c), c.scale
		} else {
			var ok bool
			m, sc, ok = dyadicOf(c.F64())
			if !ok {
				unsup("dyadic times non-finite constant")
			}
		}
		r := ts.dyMulConst(d, m, sc)
		if r.bnd >= dyLimit {
			unsup("dyadic exactness bound exceeded in * (%g)", r.bnd)
		}
		return r
	}
	if a.id > b.id {
		a, b = b, a // IEEE multiplication is commutative: canonical operand order
	}
	return ts.intern(&Term{op: OpFMul, sort: SF64, args: []*Term{a, b}})
}
func (ts *TermStore) FDiv(a, b *Term) *Term {
	if a.IsConst() && b.IsConst() && a.sort == SF64 && b.sort == SF64 {
		return ts.F64C(a.F64() / b.F64())
	}
	if isDyPair(a, b) {
		// division by a power-of-two constant is an exact scaling
		if a.sort == SDy && b.IsConst() && b.sort == SF64 {
			fr, _ := math.Frexp(b.F64())
			if fr == 0.5 || fr == -0.5 {
				return ts.FMul(a, ts.F64C(1/b.F64()))
			}
		}
		unsup("division involving a dyadic value")
	}
	return ts.intern(&Term{op: OpFDiv, sort: SF64, args: []*Term{a, b}})
}
func (ts *TermStore) funary(op Op, a *Term) *Term {
	if a.sort == SDy {
		unsup("float op %d on dyadic value", op)
	}
	if a.IsConst() {
		f := a.F64()
		switch op {
		case OpFAbs:
			return ts.F64C(math.Abs(f))
		case OpFSqrt:
			return ts.F64C(math.Sqrt(f))
		case OpFFloor:
			return ts.F64C(math.Floor(f))
		case OpFCeil:
			return ts.F64C(math.Ceil(f))
		case OpFTrunc:
			return ts.F64C(math.Trunc(f))
		}
	}
	return ts.intern(&Term{op: op, sort: SF64, args: []*Term{a}})
}
func (ts *TermStore) fcmp(op Op, a, b *Term) *Term {
	a, b = ts.promote(a, b)
	if a.IsConst() && b.IsConst() && a.sort == SF64 && b.sort == SF64 {
		x, y := a.F64(), b.F64()
		switch op {
		case OpFLt:
			return ts.BoolC(x < y)
		case OpFLe:
			return ts.BoolC(x <= y)
		case OpFEq:
			return ts.BoolC(x == y)
		}
	}
	if isDyPair(a, b) {
		// a non-finite constant compares trivially
		for i, c := range []*Term{a, b} {
			if c.sort == SF64 && c.IsConst() {
				f := c.F64()
				if f != f {
					return ts.BoolC(false)
				}
				if math.IsInf(f, 0) {
					pos := f > 0
					// dy op inf
					if i == 1 {
						return ts.BoolC(op != OpFEq && pos)
					}
					return ts.BoolC(op != OpFEq && !pos)
				}
			}
		}
		a, b = ts.toDy(a), ts.toDy(b)
		g := a.scale
		if b.scale > g {
			g = b.scale
		}
		d := linAdd(ts.linAt(a, g), ts.linAt(b, g).scaled(big.NewInt(-1))) // a - b
		if len(d.atoms) == 0 {
			c := d.k.Sign()
			switch op {
			case OpFLt:
				return ts.BoolC(c < 0)
			case OpFLe:
				return ts.BoolC(c <= 0)
			default:
				return ts.BoolC(c == 0)
			}
		}
		// canonical sign for equalities; divide out the common factor
		gcd := new(big.Int).Abs(d.k)
		for _, c := range d.coefs {
			gcd.GCD(nil, nil, gcd, new(big.Int).Abs(c))
		}
		if gcd.Sign() != 0 && gcd.Cmp(big.NewInt(1)) != 0 {
			d.k = new(big.Int).Quo(d.k, gcd)
			nc := make([]*big.Int, len(d.coefs))
			for i, c := range d.coefs {
				nc[i] = new(big.Int).Quo(c, gcd)
			}
			d.coefs = nc
		}
		if op == OpFEq && d.coefs[0].Sign() < 0 {
			d = d.scaled(big.NewInt(-1))
		}
		// move the constant to the right-hand side:  Σ c_i a_i  op  -k
		rhs := ts.intern(&Term{op: OpConst, sort: SDy, name: new(big.Int).Neg(d.k).String(), scale: g, bnd: bigAbsF(d.k)})
		d.k = big.NewInt(0)
		lhs := ts.mkLin(d, g, math.Inf(1))
		dop := map[Op]Op{OpFLt: OpDyLt, OpFLe: OpDyLe, OpFEq: OpDyEq}[op]
		return ts.intern(&Term{op: dop, sort: SBool, args: []*Term{lhs, rhs}})
	}
	return ts.intern(&Term{op: op, sort: SBool, args: []*Term{a, b}})
}
func (ts *TermStore) FLt(a, b *Term) *Term { return ts.fcmp(OpFLt, a, b) }
func (ts *TermStore) FLe(a, b *Term) *Term { return ts.fcmp(OpFLe, a, b) }
func (ts *TermStore) FEq(a, b *Term) *Term { return ts.fcmp(OpFEq, a, b) }
func (ts *TermStore) FIsNaN(a *Term) *Term {
	if a.sort == SDy {
		return ts.BoolC(false)
	}
	if a.IsConst() {
		return ts.BoolC(a.F64() != a.F64())
	}
	if a.op == OpFFromSInt || a.op == OpFFromUInt {
		return ts.BoolC(false)
	}
	return ts.intern(&Term{op: OpFIsNaN, sort: SBool, args: []*Term{a}})
}
func (ts *TermStore) FIsInf(a *Term) *Term {
	if a.sort == SDy {
		return ts.BoolC(false)
	}
	if a.IsConst() {
		return ts.BoolC(math.IsInf(a.F64(), 0))
	}
	return ts.intern(&Term{op: OpFIsInf, sort: SBool, args: []*Term{a}})
}
func (ts *TermStore) FFromBits(a *Term) *Term {
	if a.IsConst() {
		// keep exact bits (NaN payload canonicalised)
		return ts.F64C(math.Float64frombits(a.cu))
	}
	if a.op == OpFBits {
		return a.args[0]
	}
	return ts.intern(&Term{op: OpFFromBits, sort: SF64, args: []*Term{a}})
}
func (ts *TermStore) FBits(a *Term) *Term {
	if a.sort == SDy {
		unsup("bit cast of a dyadic value")
	}
	if a.IsConst() {
		return ts.BV(64, a.cu)
	}
	if a.op == OpFFromBits {
		return a.args[0]
	}
	return ts.intern(&Term{op: OpFBits, sort: SBV64, args: []*Term{a}})
}
func (ts *TermStore) FFromInt(a *Term, signed bool) *Term {
	if isMI(a) {
		return a // the same number; exact because |m| < 2^53
	}
	if a.IsConst() {
		if signed {
			return ts.F64C(float64(a.S64()))
		}
		return ts.F64C(float64(a.cu))
	}
	op := OpFFromUInt
	if signed {
		op = OpFFromSInt
	}
	return ts.intern(&Term{op: op, sort: SF64, args: []*Term{a}})
}
func (ts *TermStore) FToSInt64(a *Term) *Term {
	if a.sort == SDy {
		unsup("float->int conversion of a dyadic value")
	}
	if a.IsConst() {
		return ts.BV(64, uint64(f64ToInt64AMD(a.F64())))
	}
	return ts.intern(&Term{op: OpFToSInt64, sort: SBV64, args: []*Term{a}})
}
func (ts *TermStore) UF(name string, s Sort, args ...*Term) *Term {
	return ts.intern(&Term{op: OpUF, sort: s, name: name, args: args})
}

// ---------- evaluation under a model ----------

type Model map[string]uint64 // symbol -> value bits (Dy/Int symbols: int64 as uint64)

type evalCtx struct {
	m    Model
	memo map[int]evalVal
	ufs  map[string][]ufApp
	// all uninterpreted-function applications emitted so far (by name), so that an application
	// without a model value is evaluated congruently with those the model does define
	known     map[string][]*Term
	preloaded map[string]bool
}

func (e *evalCtx) preload(name string) {
	if e.preloaded[name] {
		return
	}
	e.preloaded[name] = true
	for _, app := range e.known[name] {
		if _, ok := e.m[ufAuxName(app)]; ok {
			e.eval(app)
		}
	}
}
type evalVal struct {
	u  uint64   // bool/bv/f64 bits
	bi *big.Int // Dy integer part
}
type ufApp struct {
	args []evalVal
	val  evalVal
}

func newEvalCtx(m Model) *evalCtx {
	return &evalCtx{m: m, memo: map[int]evalVal{}, ufs: map[string][]ufApp{}, preloaded: map[string]bool{}}
}

func b2u(b bool) uint64 {
	if b {
		return 1
	}
	return 0
}

func canonNaN(f float64) uint64 {
	if f != f {
		return 0x7ff8000000000001
	}
	return math.Float64bits(f)
}

func (e *evalCtx) eval(t *Term) evalVal {
	if t.op == OpConst {
		if t.sort == SDy {
			return evalVal{bi: dyConstBig(t)}
		}
		return evalVal{u: t.cu}
	}
	if v, ok := e.memo[t.id]; ok {
		return v
	}
	v := e.eval1(t)
	e.memo[t.id] = v
	return v
}

func (e *evalCtx) evalBool(t *Term) bool { return e.eval(t).u != 0 }

func (e *evalCtx) eval1(t *Term) evalVal {
	a := func(i int) evalVal { return e.eval(t.args[i]) }
	af := func(i int) float64 { return math.Float64frombits(e.eval(t.args[i]).u) }
	w := 0
	if len(t.args) > 0 {
		w = t.args[0].sort.Width()
	}
	fv := func(f float64) evalVal { return evalVal{u: canonNaN(f)} }
	switch t.op {
	case OpVar:
		if t.sort == SDy {
			return evalVal{bi: big.NewInt(int64(e.m[t.name]))}
		}
		return evalVal{u: maskW(e.m[t.name], widthOrBool(t.sort))}
	case OpNot:
		return evalVal{u: 1 - a(0).u}
	case OpAnd:
		return evalVal{u: a(0).u & a(1).u}
	case OpOr:
		return evalVal{u: a(0).u | a(1).u}
	case OpIte:
		if a(0).u != 0 {
			return a(1)
		}
		return a(2)
	case OpEq:
		return evalVal{u: b2u(a(0).u == a(1).u)}
	case OpAdd, OpSub, OpMul, OpUDiv, OpURem, OpSDiv, OpSRem, OpBAnd, OpBOr, OpBXor, OpShl, OpLShr, OpAShr:
		r, ok := foldBV(t.op, w, a(0).u, a(1).u)
		if !ok {
			r = 0 // division by zero: SMT semantics differ, guarded by obligations upstream
			if t.op == OpSDiv {
				if sx(a(0).u, w) < 0 {
					r = 1
				} else {
					r = ^uint64(0)
				}
			} else if t.op == OpSRem {
				r = a(0).u
			}
		}
		return evalVal{u: maskW(r, w)}
	case OpBNot:
		return evalVal{u: maskW(^a(0).u, w)}
	case OpNeg:
		return evalVal{u: maskW(-a(0).u, w)}
	case OpULt:
		return evalVal{u: b2u(a(0).u < a(1).u)}
	case OpULe:
		return evalVal{u: b2u(a(0).u <= a(1).u)}
	case OpSLt:
		return evalVal{u: b2u(sx(a(0).u, w) < sx(a(1).u, w))}
	case OpSLe:
		return evalVal{u: b2u(sx(a(0).u, w) <= sx(a(1).u, w))}
	case OpZExt:
		return evalVal{u: a(0).u}
	case OpSExt:
		return evalVal{u: maskW(uint64(sx(a(0).u, w)), t.p1)}
	case OpExtract:
		return evalVal{u: maskW(a(0).u, t.p1)}
	case OpLZ64:
		return evalVal{u: uint64(bits.LeadingZeros64(a(0).u))}
	case OpTZ64:
		return evalVal{u: uint64(bits.TrailingZeros64(a(0).u))}
	case OpFAdd:
		return fv(af(0) + af(1))
	case OpFSub:
		return fv(af(0) - af(1))
	case OpFMul:
		return fv(af(0) * af(1))
	case OpFDiv:
		return fv(af(0) / af(1))
	case OpFNeg:
		return fv(-af(0))
	case OpFAbs:
		return fv(math.Abs(af(0)))
	case OpFSqrt:
		return fv(math.Sqrt(af(0)))
	case OpFFloor:
		return fv(math.Floor(af(0)))
	case OpFCeil:
		return fv(math.Ceil(af(0)))
	case OpFTrunc:
		return fv(math.Trunc(af(0)))
	case OpFLt:
		return evalVal{u: b2u(af(0) < af(1))}
	case OpFLe:
		return evalVal{u: b2u(af(0) <= af(1))}
	case OpFEq:
		return evalVal{u: b2u(af(0) == af(1))}
	case OpFIsNaN:
		return evalVal{u: b2u(af(0) != af(0))}
	case OpFIsInf:
		return evalVal{u: b2u(math.IsInf(af(0), 0))}
	case OpFIsNeg:
		return evalVal{u: b2u(af(0) == af(0) && math.Signbit(af(0)))}
	case OpFFromBits:
		return fv(math.Float64frombits(a(0).u))
	case OpFBits:
		return evalVal{u: a(0).u}
	case OpFFromSInt:
		return fv(float64(sx(a(0).u, w)))
	case OpFFromUInt:
		return fv(float64(a(0).u))
	case OpFToSInt64:
		return evalVal{u: uint64(f64ToInt64AMD(af(0)))}
	case OpUF:
		// aux symbol value from the model if present, else congruence with earlier applications
		args := make([]evalVal, len(t.args))
		for i := range t.args {
			args[i] = a(i)
		}
		if mv, ok := e.m[ufAuxName(t)]; ok {
			// the model's own value for this application is authoritative
			v := evalVal{u: maskW(mv, widthOrBool(t.sort))}
			if t.sort == SDy {
				v = evalVal{bi: big.NewInt(int64(mv))}
			}
			if t.sort == SF64 {
				v = evalVal{u: canonNaN(math.Float64frombits(mv))}
			}
			e.ufs[t.name] = append(e.ufs[t.name], ufApp{args, v})
			return v
		}
		e.preload(t.name)
		for _, app := range e.ufs[t.name] {
			same := true
			for i := range args {
				if args[i].bi != nil || app.args[i].bi != nil {
					if args[i].bi == nil || app.args[i].bi == nil || args[i].bi.Cmp(app.args[i].bi) != 0 {
						same = false
					}
				} else if args[i].u != app.args[i].u {
					same = false
				}
			}
			if same {
				return app.val
			}
		}
		var v evalVal
		if t.sort == SDy {
			v = evalVal{bi: big.NewInt(0)}
		}
		if (t.name == absMulName || t.name == absDivName) && len(args) == 2 {
			// abstracted IEEE product / quotient without a model value: the true IEEE result is one
			// admissible value (it satisfies every axiom asserted about the abstraction)
			x, y := math.Float64frombits(args[0].u), math.Float64frombits(args[1].u)
			if t.name == absMulName {
				v = evalVal{u: canonNaN(x * y)}
			} else {
				v = evalVal{u: canonNaN(x / y)}
			}
		}
		if mv, ok := e.m[ufAuxName(t)]; ok {
			v = evalVal{u: maskW(mv, widthOrBool(t.sort))}
			if t.sort == SF64 {
				v = evalVal{u: canonNaN(math.Float64frombits(mv))}
			}
		}
		e.ufs[t.name] = append(e.ufs[t.name], ufApp{args, v})
		return v
	case OpDyAdd:
		return evalVal{bi: new(big.Int).Add(a(0).bi, a(1).bi)}
	case OpDyNeg:
		return evalVal{bi: new(big.Int).Neg(a(0).bi)}
	case OpDyScale:
		k, _ := new(big.Int).SetString(t.name, 10)
		return evalVal{bi: new(big.Int).Mul(a(0).bi, k)}
	case OpDyLin:
		k, _ := new(big.Int).SetString(t.name, 10)
		r := new(big.Int).Set(k)
		for i := range t.args {
			c, _ := new(big.Int).SetString(t.coefs[i], 10)
			r.Add(r, c.Mul(c, a(i).bi))
		}
		return evalVal{bi: r}
	case OpDyDiv:
		k, _ := new(big.Int).SetString(t.name, 10)
		return evalVal{bi: new(big.Int).Div(a(0).bi, k)}
	case OpDyMod:
		k, _ := new(big.Int).SetString(t.name, 10)
		return evalVal{bi: new(big.Int).Mod(a(0).bi, k)}
	case OpDyLt:
		return evalVal{u: b2u(a(0).bi.Cmp(a(1).bi) < 0)}
	case OpDyLe:
		return evalVal{u: b2u(a(0).bi.Cmp(a(1).bi) <= 0)}
	case OpDyEq:
		return evalVal{u: b2u(a(0).bi.Cmp(a(1).bi) == 0)}
	}
	panic(fmt.Sprintf("eval: unhandled op %d", t.op))
}

func widthOrBool(s Sort) int {
	if s == SBool {
		return 1
	}
	if s.IsBV() {
		return s.Width()
	}
	return 64
}

func ufAuxName(t *Term) string { return fmt.Sprintf("uf!%s!%d", t.name, t.id) }

// concrete float value of a float-typed term under a model (for reporting)
func (e *evalCtx) evalF64(t *Term) float64 {
	v := e.eval(t)
	if t.sort == SDy {
		f := new(big.Float).SetInt(v.bi)
		f.SetMantExp(f, -t.scale)
		r, _ := f.Float64()
		return r
	}
	return math.Float64frombits(v.u)
}

// ---------- SMT-LIB printing ----------

func bvLit(w int, v uint64) string {
	if w%4 == 0 {
		return fmt.Sprintf("#x%0*x", w/4, maskW(v, w))
	}
	return fmt.Sprintf("#b%0*b", w, maskW(v, w))
}

func fpLit(bitsv uint64) string {
	f := math.Float64frombits(bitsv)
	if f != f {
		return "(_ NaN 11 53)"
	}
	return fmt.Sprintf("(fp #b%b #b%011b #x%013x)", bitsv>>63, (bitsv>>52)&0x7ff, bitsv&0xfffffffffffff)
}

func intLit(s string) string {
	if strings.HasPrefix(s, "-") {
		return "(- " + s[1:] + ")"
	}
	return s
}

// Emitter tracks which terms have been defined in the current solver scope.
type Emitter struct {
	aux     []string // auxiliary declared constants whose model values are needed
	defined map[int]bool
	out     []string // pending lines
	ufApps  map[string][]*Term
}

func NewEmitter() *Emitter {
	return &Emitter{defined: map[int]bool{}, ufApps: map[string][]*Term{}}
}

func tname(t *Term) string { return fmt.Sprintf("t%d", t.id) }

// ref returns the SMT text to reference t (emitting definitions as needed).
func (em *Emitter) ref(t *Term) string {
	switch t.op {
	case OpConst:
		switch t.sort {
		case SBool:
			if t.Bool() {
				return "true"
			}
			return "false"
		case SF64:
			return fpLit(t.cu)
		case SDy:
			return intLit(t.name)
		default:
			return bvLit(t.sort.Width(), t.cu)
		}
	case OpVar:
		if !em.defined[t.id] {
			em.defined[t.id] = true
			em.out = append(em.out, fmt.Sprintf("(declare-const |%s| %s)", t.name, t.sort.SMT()))
		}
		return "|" + t.name + "|"
	}
	if em.defined[t.id] {
		return tname(t)
	}
	// iterative post-order to avoid deep recursion
	em.define(t)
	return tname(t)
}

func (em *Emitter) define(root *Term) {
	type fr struct {
		t *Term
		i int
	}
	stack := []fr{{root, 0}}
	for len(stack) > 0 {
		f := &stack[len(stack)-1]
		t := f.t
		if em.defined[t.id] || t.op == OpConst || t.op == OpVar {
			if t.op == OpVar {
				em.ref(t)
			}
			stack = stack[:len(stack)-1]
			continue
		}
		if f.i < len(t.args) {
			c := t.args[f.i]
			f.i++
			if !em.defined[c.id] && c.op != OpConst {
				stack = append(stack, fr{c, 0})
			}
			continue
		}
		em.emit1(t)
		em.defined[t.id] = true
		stack = stack[:len(stack)-1]
	}
}

func (em *Emitter) emit1(t *Term) {
	r := func(i int) string { return em.ref(t.args[i]) }
	var body string
	un := func(op string) string { return fmt.Sprintf("(%s %s)", op, r(0)) }
	bi := func(op string) string { return fmt.Sprintf("(%s %s %s)", op, r(0), r(1)) }
	rbi := func(op string) string { return fmt.Sprintf("(%s RNE %s %s)", op, r(0), r(1)) }
	switch t.op {
	case OpNot:
		body = un("not")
	case OpAnd:
		body = bi("and")
	case OpOr:
		body = bi("or")
	case OpIte:
		body = fmt.Sprintf("(ite %s %s %s)", r(0), r(1), r(2))
	case OpEq:
		body = bi("=")
	case OpAdd:
		body = bi("bvadd")
	case OpSub:
		body = bi("bvsub")
	case OpMul:
		body = bi("bvmul")
	case OpUDiv:
		body = bi("bvudiv")
	case OpURem:
		body = bi("bvurem")
	case OpSDiv:
		body = bi("bvsdiv")
	case OpSRem:
		body = bi("bvsrem")
	case OpBAnd:
		body = bi("bvand")
	case OpBOr:
		body = bi("bvor")
	case OpBXor:
		body = bi("bvxor")
	case OpBNot:
		body = un("bvnot")
	case OpNeg:
		body = un("bvneg")
	case OpShl:
		body = bi("bvshl")
	case OpLShr:
		body = bi("bvlshr")
	case OpAShr:
		body = bi("bvashr")
	case OpULt:
		body = bi("bvult")
	case OpULe:
		body = bi("bvule")
	case OpSLt:
		body = bi("bvslt")
	case OpSLe:
		body = bi("bvsle")
	case OpZExt:
		body = fmt.Sprintf("((_ zero_extend %d) %s)", t.p1-t.args[0].sort.Width(), r(0))
	case OpSExt:
		body = fmt.Sprintf("((_ sign_extend %d) %s)", t.p1-t.args[0].sort.Width(), r(0))
	case OpExtract:
		body = fmt.Sprintf("((_ extract %d 0) %s)", t.p1-1, r(0))
	case OpLZ64:
		x := r(0)
		var sb strings.Builder
		for i := 0; i < 64; i++ {
			fmt.Fprintf(&sb, "(ite (= ((_ extract %d %d) %s) #b1) %s ", 63-i, 63-i, x, bvLit(64, uint64(i)))
		}
		sb.WriteString(bvLit(64, 64))
		sb.WriteString(strings.Repeat(")", 64))
		body = sb.String()
	case OpTZ64:
		x := r(0)
		var sb strings.Builder
		for i := 0; i < 64; i++ {
			fmt.Fprintf(&sb, "(ite (= ((_ extract %d %d) %s) #b1) %s ", i, i, x, bvLit(64, uint64(i)))
		}
		sb.WriteString(bvLit(64, 64))
		sb.WriteString(strings.Repeat(")", 64))
		body = sb.String()
	case OpFAdd:
		body = rbi("fp.add")
	case OpFSub:
		body = rbi("fp.sub")
	case OpFMul:
		body = rbi("fp.mul")
	case OpFDiv:
		body = rbi("fp.div")
	case OpFNeg:
		body = un("fp.neg")
	case OpFAbs:
		body = un("fp.abs")
	case OpFSqrt:
		body = fmt.Sprintf("(fp.sqrt RNE %s)", r(0))
	case OpFFloor:
		body = fmt.Sprintf("(fp.roundToIntegral RTN %s)", r(0))
	case OpFCeil:
		body = fmt.Sprintf("(fp.roundToIntegral RTP %s)", r(0))
	case OpFTrunc:
		body = fmt.Sprintf("(fp.roundToIntegral RTZ %s)", r(0))
	case OpFLt:
		body = bi("fp.lt")
	case OpFLe:
		body = bi("fp.leq")
	case OpFEq:
		body = bi("fp.eq")
	case OpFIsNaN:
		body = un("fp.isNaN")
	case OpFIsInf:
		body = un("fp.isInfinite")
	case OpFIsNeg:
		body = un("fp.isNegative")
	case OpFFromBits:
		body = fmt.Sprintf("((_ to_fp 11 53) %s)", r(0))
	case OpFBits:
		// aux const b with to_fp(b) = x  (NaN payload unconstrained)
		x := r(0)
		em.out = append(em.out, fmt.Sprintf("(declare-const %s (_ BitVec 64))", tname(t)))
		em.aux = append(em.aux, tname(t))
		em.out = append(em.out, fmt.Sprintf("(assert (= ((_ to_fp 11 53) %s) %s))", tname(t), x))
		return
	case OpFFromSInt:
		body = fmt.Sprintf("((_ to_fp 11 53) RNE %s)", r(0))
	case OpFFromUInt:
		body = fmt.Sprintf("((_ to_fp_unsigned 11 53) RNE %s)", r(0))
	case OpFToSInt64:
		x := r(0)
		lo := fpLit(math.Float64bits(-9223372036854775808.0))
		hi := fpLit(math.Float64bits(9223372036854775808.0))
		body = fmt.Sprintf("(ite (and (fp.leq %s %s) (fp.lt %s %s)) ((_ fp.to_sbv 64) RTZ %s) #x8000000000000000)", lo, x, x, hi, x)
	case OpUF:
		// Ackermannised: fresh const + congruence with earlier applications of the same UF
		args := make([]string, len(t.args))
		for i := range t.args {
			args[i] = r(i)
		}
		nm := "|" + ufAuxName(t) + "|"
		em.out = append(em.out, fmt.Sprintf("(declare-const %s %s)", nm, t.sort.SMT()))
		em.aux = append(em.aux, nm)
		em.out = append(em.out, fmt.Sprintf("(define-fun %s () %s %s)", tname(t), t.sort.SMT(), nm))
		for _, prev := range em.ufApps[t.name] {
			var conds []string
			for i := range t.args {
				eq := "="
				conds = append(conds, fmt.Sprintf("(%s %s %s)", eq, args[i], em.ref(prev.args[i])))
			}
			c := "true"
			if len(conds) == 1 {
				c = conds[0]
			} else if len(conds) > 1 {
				c = "(and " + strings.Join(conds, " ") + ")"
			}
			em.out = append(em.out, fmt.Sprintf("(assert (=> %s (= %s %s)))", c, tname(t), tname(prev)))
		}
		em.ufApps[t.name] = append(em.ufApps[t.name], t)
		return
	case OpDyAdd:
		body = bi("+")
	case OpDyNeg:
		body = un("-")
	case OpDyScale:
		body = fmt.Sprintf("(* %s %s)", intLit(t.name), r(0))
	case OpDyLin:
		var parts []string
		if t.name != "0" {
			parts = append(parts, intLit(t.name))
		}
		for i := range t.args {
			if t.coefs[i] == "1" {
				parts = append(parts, r(i))
			} else {
				parts = append(parts, fmt.Sprintf("(* %s %s)", intLit(t.coefs[i]), r(i)))
			}
		}
		if len(parts) == 1 {
			body = fmt.Sprintf("(+ 0 %s)", parts[0])
		} else {
			body = "(+ " + strings.Join(parts, " ") + ")"
		}
	case OpDyDiv:
		body = fmt.Sprintf("(div %s %s)", r(0), t.name)
	case OpDyMod:
		body = fmt.Sprintf("(mod %s %s)", r(0), t.name)
	case OpDyLt:
		body = bi("<")
	case OpDyLe:
		body = bi("<=")
	case OpDyEq:
		body = bi("=")
	default:
		panic(fmt.Sprintf("emit: unhandled op %d", t.op))
	}
	em.out = append(em.out, fmt.Sprintf("(define-fun %s () %s %s)", tname(t), t.sort.SMT(), body))
}

func (em *Emitter) take() []string {
	o := em.out
	em.out = nil
	return o
}

// containsHardFP reports whether a term contains float multiply/divide/sqrt with symbolic operands
func containsHardFP(t *Term, seen map[int]bool) bool {
	if seen[t.id] {
		return false
	}
	seen[t.id] = true
	switch t.op {
	case OpFMul, OpFDiv, OpFSqrt:
		return true
	}
	for _, a := range t.args {
		if containsHardFP(a, seen) {
			return true
		}
	}
	return false
}
