package main

import (
	"crypto/sha1"
	"encoding/json"
	"flag"
	"fmt"
	"go/types"
	"os"
	"os/exec"
	"path/filepath"
	"regexp"
	"runtime"
	"sort"
	"strconv"
	"strings"
	"sync"
	"sync/atomic"
	"time"
)

func (w *World) errorStringPtrType() types.Type {
	for _, p := range w.prog.AllPackages() {
		if p.Pkg.Path() == "errors" {
			if t := p.Type("errorString"); t != nil {
				return types.NewPointer(t.Type())
			}
		}
	}
	return nil
}

type KnownFinding struct {
	ID       string `json:"id"`
	Property string `json:"property"`
	Status   string `json:"status"` // open | fixed
	What     string `json:"what"`
	Commit   string `json:"commit,omitempty"`
}

func loadKnown(path string) ([]KnownFinding, error) {
	data, err := os.ReadFile(path)
	if err != nil {
		if os.IsNotExist(err) {
			return nil, nil
		}
		return nil, err
	}
	var f struct {
		Findings []KnownFinding `json:"findings"`
	}
	if err := json.Unmarshal(data, &f); err != nil {
		return nil, err
	}
	return f.Findings, nil
}

func envInt(name string, def int) int {
	if s := os.Getenv(name); s != "" {
		if n, err := strconv.Atoi(s); err == nil {
			return n
		}
	}
	return def
}

func main() {
	if len(os.Args) < 2 {
		fmt.Fprintln(os.Stderr, "usage: gosym check|list|replay ...")
		os.Exit(2)
	}
	switch os.Args[1] {
	case "check":
		os.Exit(cmdCheck(os.Args[2:]))
	case "list":
		os.Exit(cmdList(os.Args[2:]))
	case "replay":
		os.Exit(cmdReplay(os.Args[2:]))
	}
	fmt.Fprintln(os.Stderr, "unknown command")
	os.Exit(2)
}

func commonFlags(fs *flag.FlagSet) (*string, *string) {
	repo := fs.String("repo", "/repo", "repository under test")
	verif := fs.String("verif", "/verif", "verification directory")
	return repo, verif
}

func cmdList(args []string) int {
	fs := flag.NewFlagSet("list", flag.ExitOnError)
	repo, verif := commonFlags(fs)
	fs.Parse(args)
	w, err := loadWorld(*repo, *verif, "")
	if err != nil {
		fmt.Fprintln(os.Stderr, err)
		return 2
	}
	for _, h := range w.harnesses {
		fmt.Printf("%s %s %s\n", h.prop, h.relDir, h.name)
	}
	return 0
}

type harnessEvidence struct {
	Name         string             `json:"harness"`
	Paths        int                `json:"paths"`
	PathsDone    int                `json:"paths_completed"`
	PathsInfeas  int                `json:"paths_infeasible"`
	Obligations  map[string]*ObStat `json:"obligations"`
	Covers       map[string]int     `json:"cover_points_reached"`
	Queries      map[string]int     `json:"queries"`
	OneShot      int                `json:"one_shot_escalations"`
	SolverSec    float64            `json:"solver_seconds"`
	WallSec      float64            `json:"wall_seconds"`
	MaxDecisions int                `json:"max_decisions_on_a_path"`
	Bounds       map[string]string  `json:"bounds"`
	Inconclusive map[string]int     `json:"inconclusive,omitempty"`
	Unsupported  map[string]int     `json:"unsupported,omitempty"`
	Violations   []*Violation       `json:"violations,omitempty"`
	Vacuous      bool               `json:"vacuous"`
}

func cmdCheck(args []string) int {
	fs := flag.NewFlagSet("check", flag.ExitOnError)
	repo, verif := commonFlags(fs)
	prop := fs.String("prop", "", "property id (C01..C20)")
	tier := fs.String("tier", "quick", "quick|thorough")
	only := fs.String("harness", "", "regexp restricting harness names")
	verbose := fs.Bool("v", false, "verbose")
	noEvidence := fs.Bool("no-evidence", false, "do not write the evidence file")
	workers := fs.Int("workers", envInt("VERIF_WORKERS", runtime.NumCPU()), "parallel workers")
	validate := fs.Int("validate", -1, "passing paths per harness replayed natively (translator validation); default 0 quick, 1 thorough")
	fs.Parse(args)
	if t := os.Getenv("VERIF_TIER"); t != "" && *tier == "" {
		*tier = t
	}
	seed := envInt("VERIF_SEED", 0)
	t0 := time.Now()

	outDir := filepath.Join(*verif, "out")
	genDir := filepath.Join(outDir, "gen")
	os.MkdirAll(genDir, 0o755)
	w, err := loadWorld(*repo, *verif, genDir)
	if err != nil {
		fmt.Fprintf(os.Stderr, "INCONCLUSIVE property=%s reason=load-failed: %v\n", *prop, err)
		return 2
	}
	loadSec := time.Since(t0).Seconds()
	known, err := loadKnown(filepath.Join(*verif, "known_findings.json"))
	if err != nil {
		fmt.Fprintf(os.Stderr, "INCONCLUSIVE property=%s reason=known_findings.json unreadable: %v\n", *prop, err)
		return 2
	}
	cfg := &Config{Tier: *tier, QueryMs: 20000, EscalateSec: 30, Unwind: 400, MaxSteps: 3000000, MaxAlloc: 1024, ConcCap: 64,
		Workers: *workers, KnownOpen: map[string]bool{}, Verbose: *verbose, MaxViolPerID: 2, BudgetSec: 600}
	if *tier == "thorough" {
		cfg.QueryMs = 120000
		cfg.EscalateSec = 600
		cfg.ConcCap = 512
		cfg.MaxAlloc = 4096
		cfg.Unwind = 2000
		cfg.MaxSteps = 30000000
		cfg.BudgetSec = 7200
	}
	cfg.BudgetSec = envInt("VERIF_BUDGET_S", cfg.BudgetSec)
	if *validate >= 0 {
		cfg.SamplePass = *validate
	} else if *tier == "thorough" {
		cfg.SamplePass = 1
	}
	cfg.QueryMs = envInt("VERIF_QUERY_MS", cfg.QueryMs)
	cfg.EscalateSec = envInt("VERIF_ESCALATE_S", cfg.EscalateSec)
	for _, k := range known {
		if k.Status == "open" {
			cfg.KnownOpen[k.ID] = true
		}
	}
	var re *regexp.Regexp
	if *only != "" {
		re = regexp.MustCompile(*only)
	}
	var hs []*harnessFn
	for _, h := range w.harnesses {
		if h.prop != *prop {
			continue
		}
		if re != nil && !re.MatchString(h.name) {
			continue
		}
		// thorough-only harnesses carry the suffix _T ; quick-only _Q
		if strings.HasSuffix(h.name, "_T") && *tier != "thorough" {
			continue
		}
		if strings.HasSuffix(h.name, "_Q") && *tier == "thorough" {
			continue
		}
		// _X: attempts that do not finish within the caps on the unchanged tree (solver unknown); kept
		// for the record, run only when named explicitly
		if strings.HasSuffix(h.name, "_X") && re == nil {
			continue
		}
		hs = append(hs, h)
	}
	if len(hs) == 0 {
		fmt.Fprintf(os.Stderr, "INCONCLUSIVE property=%s reason=no harness found\n", *prop)
		return 2
	}
	// deterministic order, optionally rotated by the seed (verdicts do not depend on it)
	if seed != 0 && len(hs) > 1 {
		r := seed % len(hs)
		if r < 0 {
			r = -r
		}
		hs = append(hs[r:], hs[:r]...)
	}

	var evs []*harnessEvidence
	fnTotals := map[string]int{}
	assumptions := map[string]bool{}
	totalOb, totalDis, totalTriv, totalQ, totalPaths, totalStates := 0, 0, 0, 0, 0, 0
	var samples []interface{}
	inconclusive := false
	var confirmed []*Violation
	var knownHits []*Violation
	var unconfirmed []*Violation
	var solverSec float64
	validated, mismatches := 0, 0
	cpuSem = make(chan struct{}, cfg.Workers)
	runs := make([]*HarnessRun, len(hs))
	{
		var wg sync.WaitGroup
		hsem := make(chan struct{}, 6) // harnesses in flight
		for i, h := range hs {
			wg.Add(1)
			go func(i int, h *harnessFn) {
				defer wg.Done()
				hsem <- struct{}{}
				defer func() { <-hsem }()
				cfg2 := *cfg
				runs[i] = w.Explore(h, &cfg2)
			}(i, h)
		}
		wg.Wait()
	}
	for hi, h := range hs {
		run := runs[hi]
		he := &harnessEvidence{Name: h.name, Paths: run.Paths, PathsDone: run.PathsDone, PathsInfeas: run.PathsInfeas, Obligations: run.Obs,
			Covers: run.Covers, Queries: map[string]int{"unsat": run.Queries[Unsat], "sat": run.Queries[Sat], "unknown": run.Queries[Unknown]},
			OneShot: run.QueriesOne, SolverSec: float64(run.SolverNs) / 1e9, WallSec: run.wall.Seconds(), MaxDecisions: run.MaxDecisions,
			Bounds: run.Bounds, Violations: run.Violations}
		if len(run.Inconclusive) > 0 {
			he.Inconclusive = run.Inconclusive
			inconclusive = true
		}
		if len(run.Unsupported) > 0 {
			he.Unsupported = run.Unsupported
			inconclusive = true
		}
		if run.PathsDone == 0 || run.Covers["harness-end"] == 0 && len(run.Violations) == 0 {
			he.Vacuous = true
			inconclusive = true
		}
		evs = append(evs, he)
		for f, n := range run.FnInstr {
			fnTotals[f] += n
		}
		for a := range run.Assumptions {
			assumptions[a] = true
		}
		for id, st := range run.Obs {
			totalOb += st.Checked
			totalDis += st.Discharged
			totalTriv += st.Trivial
			if st.Inconclusive > 0 {
				inconclusive = true
			}
			_ = id
		}
		totalQ += run.Queries[0] + run.Queries[1] + run.Queries[2]
		totalPaths += run.Paths
		totalStates += run.PathsDone
		solverSec += float64(run.SolverNs) / 1e9
		for _, s := range run.Samples {
			if len(samples) < 24 {
				samples = append(samples, map[string]string{"harness": h.name, "obligation": s})
			}
		}
		status := "ok"
		if he.Vacuous {
			status = "VACUOUS"
		}
		if len(run.Violations) > 0 {
			status = fmt.Sprintf("%d violation(s)", len(run.Violations))
		}
		if he.Inconclusive != nil || he.Unsupported != nil {
			status += " INCONCLUSIVE"
		}
		fmt.Printf("  %-58s paths=%-6d obl=%-6d q=%-6d %.1fs %s\n", h.name, run.Paths, sumChecked(run.Obs), run.Queries[0]+run.Queries[1]+run.Queries[2], run.wall.Seconds(), status)
		if *verbose || he.Inconclusive != nil || he.Unsupported != nil {
			for _, k := range sortedKeys(run.Inconclusive) {
				fmt.Printf("      inconclusive x%d: %s\n", run.Inconclusive[k], k)
			}
			for _, k := range sortedKeys(run.Unsupported) {
				fmt.Printf("      unsupported x%d: %s\n", run.Unsupported[k], k)
			}
		}
		// translator validation: sampled PASSING paths must pass natively too
		for _, v := range run.Passing {
			path, res := w.replayViolation(h, v, *prop)
			validated++
			if res != "passed" {
				fmt.Printf("SELFTEST-MISMATCH harness=%s: a path the engine found passing gives %q natively (%s)\n", h.name, res, path)
				inconclusive = true
				mismatches++
			}
		}
		// replay violations natively
		for _, v := range run.Violations {
			path, res := w.replayViolation(h, v, *prop)
			v.Replay, v.Repro = path, res
			switch {
			case res == "reproduced" && v.Known != "":
				knownHits = append(knownHits, v)
			case res == "reproduced":
				confirmed = append(confirmed, v)
			default:
				unconfirmed = append(unconfirmed, v)
			}
		}
	}

	// known findings
	printedKF := map[string]bool{}
	for _, v := range knownHits {
		if !printedKF[v.Known] {
			printedKF[v.Known] = true
			what := v.Known
			for _, k := range known {
				if k.ID == v.Known {
					what = k.ID + " " + k.What
				}
			}
			fmt.Printf("KNOWN-FINDING: property=%s %s\n", *prop, what)
		}
	}
	for _, v := range unconfirmed {
		fmt.Printf("UNCONFIRMED counterexample (did not replay natively: %s) harness=%s obligation=%s at %s — treated as an engine/stub error, not a violation\n", v.Repro, v.Harness, v.ID, v.Where)
		inconclusive = true
	}
	for _, v := range confirmed {
		fmt.Printf("VIOLATION property=%s replay=%s\n", *prop, v.Replay)
		fmt.Printf("  harness=%s obligation=%s at %s %s\n", v.Harness, v.ID, v.Where, v.Msg)
	}

	if !*noEvidence {
		var fns []string
		for f, n := range fnTotals {
			if strings.Contains(f, "sketches-go") && !strings.Contains(f, "ZZ_") && !strings.Contains(f, "zz") {
				fns = append(fns, fmt.Sprintf("%s (%d instr)", f, n))
			}
		}
		sort.Strings(fns)
		var as []string
		for a := range assumptions {
			as = append(as, a)
		}
		sort.Strings(as)
		as = append(as, "int and uint are 64-bit (amd64); float64 arithmetic is IEEE-754 round-to-nearest without fused multiply-add",
			"capacity chosen by append on growth follows runtime.growslice without size-class rounding")
		if len(samples) == 0 {
			samples = append(samples, "no non-trivial obligation was discharged")
		}
		ev := map[string]interface{}{
			"property_id": *prop,
			"tier":        *tier,
			"seed":        seed,
			"level":       "model_checking",
			"coverage": map[string]interface{}{
				"evaluations":                   totalQ,
				"distinct_nontrivial":           totalDis,
				"rule":                          "one evaluation = one SMT query (branch feasibility, concretisation, or obligation); distinct_nontrivial = obligations (assertions, bounds and no-panic checks at distinct path positions) whose negation was proven unsat by the solver under the path condition, excluding obligations that constant-folded",
				"samples":                       samples,
				"states":                        maxInt(totalStates, 1),
				"transitions":                   maxInt(totalPaths, 1),
				"traces_validated_against_impl": len(confirmed) + len(knownHits) + len(unconfirmed) + validated,
				"passing_paths_replayed_natively": validated,
				"passing_path_mismatches":         mismatches,
				"obligations":                   totalOb,
				"discharged":                    totalDis + totalTriv,
				"obligations_trivial":           totalTriv,
				"paths":                         totalPaths,
				"functions_encoded":             fns,
				"harnesses":                     evs,
				"solver_seconds":                solverSec,
				"load_seconds":                  loadSec,
				"solvers":                       "z3 5.1.0 incremental (z3-new -in, push/pop per path and per query); escalation/cross-check one-shot z3 4.8.12 and cvc5 1.0 --fp-exp",
				"queries_by_verdict":            map[string]int64{"unsat": atomic.LoadInt64(&statQueries[Unsat]), "sat": atomic.LoadInt64(&statQueries[Sat]), "unknown": atomic.LoadInt64(&statQueries[Unknown])},
				"inconclusive":                  inconclusive,
				"known_findings_reproduced":     len(knownHits),
			},
			"assumptions": as,
			"wall_s":      time.Since(t0).Seconds(),
			"violations":  len(confirmed),
		}
		os.MkdirAll(filepath.Join(*verif, "evidence"), 0o755)
		data, _ := json.MarshalIndent(ev, "", " ")
		os.WriteFile(filepath.Join(*verif, "evidence", *prop+".json"), data, 0o644)
	}
	fmt.Printf("property=%s tier=%s harnesses=%d paths=%d obligations=%d discharged=%d trivial=%d queries=%d solver=%.1fs wall=%.1fs\n",
		*prop, *tier, len(hs), totalPaths, totalOb, totalDis, totalTriv, totalQ, solverSec, time.Since(t0).Seconds())
	if len(confirmed) > 0 {
		return 1
	}
	if inconclusive {
		fmt.Printf("INCONCLUSIVE property=%s reason=see harness lines above\n", *prop)
		return 2
	}
	return 0
}

func maxInt(a, b int) int {
	if a > b {
		return a
	}
	return b
}

func sumChecked(m map[string]*ObStat) int {
	n := 0
	for _, s := range m {
		n += s.Checked
	}
	return n
}

// ---------- native replay ----------

type replayFile struct {
	Property   string            `json:"property"`
	Harness    string            `json:"harness"`
	PkgDir     string            `json:"package_dir"`
	Obligation string            `json:"obligation"`
	Where      string            `json:"where"`
	Message    string            `json:"message,omitempty"`
	Known      string            `json:"known_finding,omitempty"`
	Inputs     map[string]string `json:"inputs"`
	Order      []string          `json:"input_order"`
}

func (w *World) replayViolation(h *harnessFn, v *Violation, prop string) (string, string) {
	dir := filepath.Join(w.verifDir, "out", "replays", prop)
	os.MkdirAll(dir, 0o755)
	rf := replayFile{Property: prop, Harness: h.name, PkgDir: h.relDir, Obligation: v.ID, Where: v.Where, Message: v.Msg, Known: v.Known, Inputs: v.Inputs, Order: v.Order}
	data, _ := json.MarshalIndent(rf, "", " ")
	sum := sha1.Sum(data)
	safe := strings.NewReplacer("/", "_", " ", "_", ":", "_").Replace(v.ID)
	path := filepath.Join(dir, fmt.Sprintf("%s-%s-%x.json", h.name, safe, sum[:4]))
	os.WriteFile(path, data, 0o644)
	res := runReplay(w.repo, w.verifDir, path)
	return path, res
}

func cmdReplay(args []string) int {
	fs := flag.NewFlagSet("replay", flag.ExitOnError)
	repo, verif := commonFlags(fs)
	file := fs.String("file", "", "replay json")
	fs.Parse(args)
	if *file == "" && fs.NArg() > 0 {
		*file = fs.Arg(0)
	}
	res := runReplay(*repo, *verif, *file)
	fmt.Println("replay:", res)
	if res == "reproduced" {
		return 1
	}
	if res == "passed" {
		return 0
	}
	return 2
}

// runReplay runs the harness natively (go test with an overlay) on the recorded inputs.
// Result: "reproduced", "passed", "diverged", or "error: ...".
func runReplay(repo, verif, file string) string {
	data, err := os.ReadFile(file)
	if err != nil {
		return "error: " + err.Error()
	}
	var rf replayFile
	if err := json.Unmarshal(data, &rf); err != nil {
		return "error: " + err.Error()
	}
	tmp, err := os.MkdirTemp("", "gosym-replay-")
	if err != nil {
		return "error: " + err.Error()
	}
	defer os.RemoveAll(tmp)
	_, real, _, err := buildOverlay(verif, repo, tmp)
	if err != nil {
		return "error: " + err.Error()
	}
	// package name of the harness package
	pkgName := ""
	pkgRe := regexp.MustCompile(`(?m)^package\s+(\w+)`)
	for v, r := range real {
		if filepath.Dir(v) == filepath.Join(repo, rf.PkgDir) {
			b, _ := os.ReadFile(r)
			if m := pkgRe.FindSubmatch(b); m != nil {
				pkgName = string(m[1])
			}
		}
	}
	test := fmt.Sprintf("//go:build verif\n\npackage %s\n\nimport \"testing\"\n\nfunc TestZZReplay(t *testing.T) { %s() }\n", pkgName, rf.Harness)
	tf := filepath.Join(tmp, "zz_replay_test.go")
	os.WriteFile(tf, []byte(test), 0o644)
	real[filepath.Join(repo, rf.PkgDir, "zz_replay_test.go")] = tf
	ovj, _ := json.Marshal(map[string]interface{}{"Replace": real})
	ovf := filepath.Join(tmp, "overlay.json")
	os.WriteFile(ovf, ovj, 0o644)
	last := ""
	for attempt := 0; attempt < 3; attempt++ {
		cmd := exec.Command("go", "test", "-tags", "verif", "-vet=off", "-count=1", "-timeout", "120s", "-run", "^TestZZReplay$", "-overlay", ovf, "./"+rf.PkgDir)
		cmd.Dir = repo
		cmd.Env = append(os.Environ(), "GOFLAGS=-mod=mod", "GOPROXY=off", "GOSUMDB=off", "GOTOOLCHAIN=local", "ZZV_MODEL="+file)
		out, _ := cmd.CombinedOutput()
		s := string(out)
		last = s
		switch {
		case strings.Contains(s, "ZZV-ASSERT-FAILED:"+rf.Obligation):
			return "reproduced"
		case strings.HasPrefix(rf.Obligation, "no-panic") && strings.Contains(s, "panic:") && !strings.Contains(s, "ZZV-"):
			return "reproduced"
		case strings.Contains(s, "ZZV-ASSERT-FAILED:"):
			return "reproduced" // another obligation of the same harness failed on these inputs
		case strings.Contains(s, "ZZV-ASSUME-FAILED"):
			return "diverged"
		case strings.Contains(s, "panic:") && !strings.Contains(s, "ZZV-"):
			return "reproduced"
		case strings.Contains(s, "\nok ") || strings.HasPrefix(s, "ok "):
			continue // may depend on map iteration order: retry
		default:
			return "error: " + firstLines(s, 6)
		}
	}
	_ = last
	return "passed"
}

func firstLines(s string, n int) string {
	ls := strings.Split(s, "\n")
	if len(ls) > n {
		ls = ls[:n]
	}
	return strings.Join(ls, " | ")
}
