#!/usr/bin/env python3
"""Regenerates MANIFEST.json from the table below (keeps the manifest valid and in one place)."""
import json

BASE_OFF = ("cd /repo && export GOFLAGS=-mod=mod GOPROXY=off GOSUMDB=off && "
            "go test -vet=off -count=1 -timeout 25m ./...")

TECH = "bounded symbolic execution of the real Go SSA (own encoder) + SMT (z3 5.1.0 incremental; z3 4.8.12 / cvc5 one-shot escalation); counterexamples replayed natively"

# id -> (claimed?, level text, level note, design ref) ; unclaimed -> reason
CHECKS = {
 "C01": dict(text="The real DDSketch.Add/GetValueAtQuantile on the real sparse and paginated stores is executed symbolically for n<=3 (quick) arbitrary trackable float64 values of any sign, zero or sub-minimum magnitude and every q in [0,1]; the index mapping is any mapping satisfying the contract that C03 states (monotone int32 index, positive increasing representative value, representative of a value's bin inside the value's accuracy band). The solver proves that the answer lies in the accuracy band of the order statistic of rank floor or ceil of q*(n-1), and that q=0/q=1 land in the bins of the true minimum/maximum. Dense and other stores follow by composition with C04 (every store's observers equal the abstract map).",
             note="Assume-guarantee: mapping through its contract with an ABSTRACT accuracy band lo(v)<=Value(Index(v))<=hi(v) (the real band v*(1-+(alpha+1e-12)) is one instance; no float multiplication needed); C03 checks the real mappings against that contract only as far as it says. Rank arithmetic is exact IEEE. Bounds: n<=3 (4 thorough), unit weights, map iteration order fixed at sketch level (all orders are C04's).",
             ref="§6 C01"),
 "C02": dict(text="One merge step, on real code: (i) a matrix of every (receiver, argument) pair of store kinds, each store first BUILT by the real code from enumerated index patterns at a symbolic page-aligned base with unit or symbolic weights, merged, and compared with the exact pointwise sum (argument unchanged, invariants kept, total conserved); (ii) sketch-level wiring from arbitrary valid states of small stores: both sides and the zero bucket add up, count adds up, argument unchanged; merging an empty or cleared sketch is a no-op; a mismatched mapping is refused and changes nothing. Merge trees/orders follow because pointwise addition of exact dyadic weights is associative and commutative (algebra on the specification).",
             note="Weights dyadic, indexes mathematical integers; state sizes as listed in the evidence; the same-kind fast paths from arbitrary states are C04's/C05's harnesses.",
             ref="§6 C02"),
 "C06": dict(text="Sketches BUILT by the real code on every store kind (0-2 positive, 0-1 negative bins at a symbolic base index, unit or grid weights, zero weight) are encoded by the real encoder (mapping embedded, or omitted and supplied, onto an existing symbolic prefix) and decoded by the real decoder into every store kind: the solver proves prefix preserved, source content unchanged, mapping Equals, zero weight and both sides' content identical, and that decoding the same bytes into the now non-empty result doubles every weight (decode = merge).",
             note="Byte level, real varint/varfloat code. Decoded integers are replaced by the encoded term only after the solver proves them equal under the path condition. Pairs involving the paginated store use ENUMERATED index bases (page arithmetic over a symbolic 64-bit base did not finish): those runs are interpreter-executed enumeration, not solver-decided, and are labelled so in the evidence. A variant with a symbolic small-integer weight is kept as an unregistered attempt (_X harnesses: did not finish within an hour).",
             ref="§6 C06"),
 "C07": dict(text="(a) Every encoding produced by the implementation for the C06 sources (both sketch variants, dense/sparse/paginated/collapsing stores, either bin layout the dense store picks) is parsed by a reference decoder written from the format documentation only into the same content, consuming every byte; (b) streams written by a reference ENCODER from the documented grammar (three layouts, strides -1/0/40, repeated blocks and indexes, three block orders) decode with the real decoder into sparse, dense and paginated stores to the documented content; (c) the plain decoder accepts exact-summary encodings and the exact decoder restores the statistics.",
             note="The reference codec (harness/ddsketch/zz_refcodec.go) is part of the trusted base. Bounds as C06 plus 3 bins per block. The plain-decoder defect found here was repaired (known_findings.json).",
             ref="§6 C07"),
 "C08": dict(text="Every cut position of the encodings of C06-style sketches (both variants, several store kinds) is decoded by the real decoders: a cut inside a block must return an error, a cut at a block boundary must succeed with exactly the complete blocks (or report the missing mapping), as judged by the reference parser; any undefined flag value (symbolic byte) at any block boundary, a mapping mismatch and a missing mapping are errors; no decode can panic (all bounds obligations proven).",
             note="Bounds: encodings of sketches with <=1 bin per side (<= ~45 bytes), all cut positions enumerated, contents symbolic. The discarded-error defect found here was repaired (known_findings.json).",
             ref="§6 C08"),
 "C10": dict(text="One step of every operation from a state in which the statistics are linked to the absorbed data: Add/AddWithCount (count tracks weight incl. zero weight, min/max are the true extremes over ALL float64 values, sum exact on dyadic data), MergeWith (count/sum add, extremes fold, argument unchanged), ChangeMapping (statistics rescaled, source untouched), Copy/Clear/Reweight (C14/C15/C16 steps), rejected adds leave the statistics untouched, and quantile answers equal the plain answers clamped into [min,max].",
             note="Sum exactness only on dyadic data (Kahan compensation is exactly zero there); quality of the compensated sum on other data is outside. Encode/decode of the statistics is covered in C07(c).",
             ref="§6 C10"),
 "C11": dict(text="Weighted adds (weights from {2^-10,1/4,1/2,1,1.5,3,2^20}) and Reweight by {2^-10,1/4,3} on the real sketch + sparse stores with a contract mapping: for every q in [0,1] the answer lies between the reported minimum and maximum and in the accuracy band of an absorbed value whose cumulative-weight interval is within one unit of q*(W-1), including total weights below one.",
             note="Same assume-guarantee split as C01. Bounds: n<=2 values (3 thorough). The negative-rank defect found here was repaired (known_findings.json).",
             ref="§6 C11"),
 "C12": dict(text="On sketches built by real adds of n<=2 arbitrary trackable values (contract mapping, real sparse stores): count = number of values, emptiness, zero count, reported extremes in the accuracy band of the true extremes in all five sign cases, quantiles monotone in q and inside the reported extremes for all q1<=q2, batch query equals single queries and fails iff one fails, ForEach yields distinct bins with positive weights summing to the count, covering every input, and stops when asked.",
             note="GetSum's alpha-accuracy is NOT covered (needs a multiplicative band and float products: the attempt, kept as _X harnesses, came back unknown). Bounds n<=2 (3 thorough).",
             ref="§6 C12"),
 "C13": dict(text="For ALL float64 bit patterns of value, weight (non-NaN) and quantile, on both sketch variants and the three real mapping kinds: the returned error is exactly the documented one (negative weight, too high, too low, NaN, else nil), quantile queries err iff q is not a number in [0,1] or the sketch is empty, refused calls leave every observable unchanged; constructors refuse accuracies outside (0,1) and bases <=1 and never return (nil,nil); mismatched mappings and non-positive reweight factors are refused without effect.",
             note="Four defects found here were repaired (known_findings.json). Acceptance of in-range accuracies is checked on a concrete grid (Pow/Log are uninterpreted on symbolic arguments).",
             ref="§6 C13"),
 "C14": dict(text="From arbitrary valid states of every store kind and both sketch variants: every read-only entry point (count/emptiness/extremes/quantiles/ForEach/Bins/KeyAtRank/ToProto/being merge argument; compact and sortBuffer of the paginated store) leaves the represented index->weight map, the zero weight, the statistics and the invariant unchanged; Copy yields equal content and neither side is affected by a later mutation of the other (aliasing is modelled exactly by the engine's concrete heap graph).",
             note="Purity of the binary Encode is checked in C06 (exact-IEEE weights); here weights are dyadic. Quantile reads at q in {0,1/4,1/2,1}.",
             ref="§6 C14"),
 "C15": dict(text="Every store kind and both sketch variants from an arbitrary valid state: Clear gives the invariant, empty content, reset flags/sentinels/statistics; the same two-step history on the cleared object and on a freshly constructed one gives the same content and observer answers; and every C04/C05 step obligation is proven from exactly the states Clear leaves (arbitrary capacity, stale cells, truncated pages), so longer histories follow by induction.",
             note="Direct two-run comparison is two operations long; the rest is the inductive argument through C04/C05.",
             ref="§6 C15"),
 "C16": dict(text="Reweight on every store kind (incl. collapsing and a paginated store with buffered and paged indexes) and both sketch variants from arbitrary valid states: every bin on both sides, the zero weight and the count scale by w, exact count and sum scale, exact min/max unchanged, w=1 is a no-op, every dyadic w<=0 is refused with nothing changed.",
             note="w from {1/4,1/2,1,2,3}: a product of two symbolic values is outside the dyadic abstraction.",
             ref="§6 C16"),
 "C20": dict(text="Dataset built by real Add/Merge of n<=3 (quick) arbitrary non-NaN float64 values: for every q (all bit patterns) Lower/UpperQuantile return exactly the order statistic of rank floor/ceil of fl(q*(n-1)) (oracle written without sorting), NaN for invalid q or empty data, exact Min/Max/Count; the same after additions or a merge following a query (stale sort flag); Sum exact on dyadic data.",
             note="sort.Float64s is modelled as an insertion sort forking on comparisons. The rank is read in float64 arithmetic. The NaN-quantile panic found here was repaired.",
             ref="§6 C20"),
 "C03": dict(text="PARTIAL. Decided on the real arithmetic of the linearly interpolated mapping, one binade at a time (all 2^52 significands; quick: alpha=0.01 in binades -1,0,1; thorough: more accuracies, far binades and a non-default offset): relative accuracy within alpha+1e-12, the value inside its bin up to a few ulps of the floored quantity (relative 2*eps*(|E|+2+|offset|/multiplier)+4*eps; see DESIGN 12.3(7)), index in int32, the next float never maps to a smaller index (cvc5 decides each in minutes). For all three kinds: the manual floor of Index brackets the log-like quantity for every value of that quantity, and — by concrete evaluation of the real constructors on a grid of accuracies — the reported accuracy equals the configured one within 8 ulps of 1 and both ends of the indexable range map to int32 indexes within the accuracy.",
             note="NOT decided: accuracy, containment and monotonicity of the logarithmic mapping (depends on math.Log/Exp, uninterpreted here) and of the cubic mapping (cubic polynomial and Cardano inverse: solver timeouts); binades and accuracies not listed. Monotonicity of the floor skeleton is thorough-tier (attempted, 10 min cap).",
             ref="§6 C03, §12.6", tech="bounded symbolic execution of the real Go SSA (own encoder) + SMT: cvc5 1.0 --fp-exp decides the float kernels (z3 as fallback); counterexamples replayed natively"),
 "C09": dict(text="PARTIAL (proto.Marshal/Unmarshal run on reflection and are outside). Decided on real code: (a) ToProto -> FromProtoWithStoreProvider for source/target store kinds incl. collapsing, the three mapping kinds and EVERY positive finite float64 weight: mapping Equals both ways, zero weight and every bin bit-for-bit, source untouched; (b) hand-built messages giving bins both sparsely and contiguously add up in MergeWithProto (generic and paginated); (c) the bytes written by the streaming EncodeProto (generated builders, protowire and bytes.Buffer executed from their real code) are parsed by a reference protobuf wire parser (packed and unpacked doubles) into exactly the fields of the in-memory message.",
             note="The reference wire parser (harness/ddsketch/zz_c09.go) stands in for Unmarshal and is trusted. Bounds: 0-2 positive / 0-1 negative bins; symbolic base index (enumerated when a paginated store is involved).",
             ref="§6 C09"),
 "C17": dict(text="PARTIAL: the structural clauses only. Identity (equal mapping, scale 1) returns an exact, independent copy from arbitrary valid states and ignores the stores passed; in general the result carries the requested mapping and the given stores, keeps the zero weight bit-for-bit, leaves the source untouched and sends a source bin's weight only to the (at most three) target bins the loop visits, for mappings known only through strictly increasing bin bounds; exact statistics are rescaled (C10 harness).",
             note="NOT decided: conservation of total weight up to rounding, absence of negative weights, the combined accuracy bound — they need chains of symbolic float division/multiplication (solver unknown). The ~-1e-14 weights mentioned in the property text are therefore neither confirmed nor refuted by this check.",
             ref="§6 C17, §12.6"),
 "C19": dict(text="For every finite base > 1 and offset (all bit patterns) and the three kinds: binary Encode -> Decode and ToProto -> FromProto give the same kind with bit-identical parameters AND derived fields, the same Index/Value/LowerBound/accuracy/range on every probe (congruence over deterministic uninterpreted Log/Exp/Pow), Equals both ways; the accuracy constructor equals the base/offset constructor; Equals is reflexive, never holds across kinds, never for bases or offsets that differ clearly (incl. zero vs non-zero offset); unknown flags, truncated blocks, nil and unsupported protobuf mappings are errors; on a grid, accuracies 0.1% apart give unequal mappings.",
             note="Symmetry of Equals for two fully symbolic mappings and the accuracy-separation for all accuracies are thorough-tier attempts (float products). The streaming protobuf form of a mapping is covered in C09(c).",
             ref="§6 C19"),
 "C04": dict(text="One inductive step of every store operation from an arbitrary state satisfying the representation invariant (dense: any window in a symbolic array with stale cells beyond len; sparse: M distinct symbolic indexes; buffered-paginated: enumerated page-table layouts with symbolic buffer, page base, cells) is proven by the solver to preserve the invariant and to change the abstract index->weight map exactly as the operation's specification says, at a skolem probe index; every observer (TotalCount, IsEmpty, Min/MaxIndex, KeyAtRank at symbolic rank incl. exact cumulative boundaries and negatives, ForEach incl. early stop, Bins) is proven to return the value the specification assigns to that map. By induction this covers operation histories of any length whose states fit the stated size bounds. In addition every 3-operation history from a NEW store (adds, observations, copies, clears, merges, reweights, decodes of the three bin layouts) is executed through the real constructors and compared with a ghost multiset, and after every copy and merge the two stores are proven to share no mutable memory (structural disjointness of the engine's heap graph), which is what catches added caches/flags and aliasing that the one-step states cannot contain.",
             note="Weights are dyadic fixed point (multiples of 2^-4, <= 2^20 units) and indexes are mathematical integers with int32 range: exactness/no-wrap is enforced by bound tracking (|m| < 2^53). Trusted: the invariants are inductive only as far as the step obligations show; go/ssa; this engine; z3/cvc5. Bounds: quick: dense window arrays of 0/1/4 symbolic cells plus an enumerated 66-cell layout, new index within 12 of the window; sparse M<=3 with all iteration orders; paginated layouts as listed in the evidence; 3-operation histories. Thorough: dense 8 cells, all 66x80 layouts of the realistic array, sparse M=4, 4-operation histories. Encode/Decode and protobuf steps are covered under C06/C09.",
             ref="§6 C04"),
 "C05": dict(text="Collapsing stores with bin limit N in {1,2,3,4}: from an arbitrary invariant state (whole array symbolic, collapsed or not, empty or cleared with stale cells) one AddWithCount and one same-kind MergeWith (every pair of limits in {1,2,3}, receiver/argument empty or not) are proven to keep len<=N and span<=N, conserve total weight, leave the argument unchanged and yield exactly the content folded at the collapsing edge; no operation can panic. A matrix of cross-kind merges (each store built by the real code) and every 3-operation history from a new N=3 store are compared with the folded ghost content; receiver and argument share no memory after a merge.",
             note="Same trusted base and weight/index abstractions as C04. Bounds: quick N<=4 (add), N<=3 (merge); thorough N in {8,16} (add), pairs (4,4),(6,3),(2,6) (merge), 4-operation histories; new index within 24 of the window, merged windows within 12 of each other. N=2048 is outside. The empty-receiver merge panic found by this check was repaired (known_findings.json: fixed).",
             ref="§6 C05"),
 "C18": dict(text="Every codec obligation (round trip, framing with arbitrary prefix/trailing bytes, size functions, strict-prefix EOF, 32-bit overflow, varfloat (v+1)-1, flags, no panic / <=9 bytes read on arbitrary input) is proven by the solver for all 2^64 values of the encoded quantity on the SSA of the real functions; bounded only in the number of surrounding symbolic bytes.",
             note="Trusted: go/ssa construction, this engine's SSA semantics (validated by native replay of every counterexample), the SMT solvers; stubs: math.Float64bits/frombits (bit casts), bits.Leading/TrailingZeros64 (ite chains). Bounds: prefix <=2 and trailing <=3 symbolic bytes (quick), prefix <=3 and trailing <=8 (thorough); arbitrary input strings <=12 bytes.",
             ref="§6 C18"),
}
NOT_YET = "no check registered yet in this revision (see DESIGN.md §6 for the planned harness)"

def main():
    checks = []
    na = []
    for i in range(1, 21):
        pid = "C%02d" % i
        c = CHECKS.get(pid)
        if c is None or c.get("na"):
            na.append({"property_id": pid, "reason": (c or {}).get("na", NOT_YET)})
            continue
        checks.append({
            "property_id": pid,
            "quick_cmd": "./check %s --tier quick" % pid,
            "thorough_cmd": "./check %s --tier thorough" % pid,
            "evidence_file": "/verif/evidence/%s.json" % pid,
            "replay_cmd_template": "./check --replay {path}",
            "engine": "gosym",
            "level_claimed": {"category": "model_checking", "text": c["text"], "design_ref": c["ref"]},
            "level_note": c["note"],
            "technique": c.get("tech", TECH),
        })
    m = {
        "version": 1,
        "setup_cmd": "./setup.sh",
        "hooks": {
            "guard": "verif",
            "enable": "no source hooks in /repo: harness files (//go:build verif) are overlaid in-package from /verif/harness at load time (go/packages Overlay) and at replay time (go test -tags verif -overlay)",
            "baseline_off_cmd": BASE_OFF,
            "source_commits": [],
            "add_only": True,
        },
        "engines": [{
            "name": "gosym", "path": "/verif/engine",
            "serves_properties": [c["property_id"] for c in checks],
            "kind_free_text": "path-forking symbolic interpreter for go/ssa (x/tools v0.29.0) written for this task; integers as bit-vectors, float64 as SMT FloatingPoint or dyadic fixed point, concrete heap graph with symbolic leaves; queries to z3/cvc5; native replay of models via go test -overlay",
        }],
        "checks": checks,
        "not_applicable": na,
        "notes": "Exit codes of every check: 0 = all obligations proven within the stated bounds (known findings, if any, printed as KNOWN-FINDING lines); 1 = a counterexample that replays against the real build (VIOLATION line); 2 = inconclusive (solver unknown/timeout, unwinding bound, unsupported construct, vacuous harness, or a counterexample that did not replay) — never reported as success.",
    }
    json.dump(m, open("/verif/MANIFEST.json", "w"), indent=1)
    print("wrote MANIFEST.json: %d checks, %d not applicable" % (len(checks), len(na)))

if __name__ == "__main__":
    main()
