#!/usr/bin/env python3
"""Regenerates MANIFEST.json from the table below (keeps the manifest valid and in one place)."""
import json

BASE_OFF = ("cd /repo && export GOFLAGS=-mod=mod GOPROXY=off GOSUMDB=off && "
            "go test -vet=off -count=1 -timeout 25m ./...")

TECH = "bounded symbolic execution of the real Go SSA (own encoder) + SMT (z3 5.1.0 incremental; z3 4.8.12 / cvc5 one-shot escalation); counterexamples replayed natively"

# id -> (claimed?, level text, level note, design ref) ; unclaimed -> reason
CHECKS = {
 "C04": dict(text="One inductive step of every store operation from an arbitrary state satisfying the representation invariant (dense: any window in a symbolic array with stale cells beyond len; sparse: M distinct symbolic indexes; buffered-paginated: enumerated page-table layouts with symbolic buffer, page base, cells) is proven by the solver to preserve the invariant and to change the abstract index->weight map exactly as the operation's specification says, at a skolem probe index; every observer (TotalCount, IsEmpty, Min/MaxIndex, KeyAtRank at symbolic rank incl. exact cumulative boundaries and negatives, ForEach incl. early stop, Bins) is proven to return the value the specification assigns to that map. By induction this covers operation histories of any length whose states fit the stated size bounds.",
             note="Weights are dyadic fixed point (multiples of 2^-4, <= 2^20 units) and indexes are mathematical integers with int32 range: exactness/no-wrap is enforced by bound tracking (|m| < 2^53). Trusted: the invariants are inductive only as far as the step obligations show; go/ssa; this engine; z3/cvc5. Bounds: dense window arrays of 0/1/4 symbolic cells plus an enumerated 66-cell layout, new index within 12 of the window; sparse M<=3 with all iteration orders; paginated layouts as listed in the evidence. Encode/Decode and protobuf steps are covered under C06/C09.",
             ref="§6 C04"),
 "C05": dict(text="Collapsing stores with bin limit N in {1,2,3,4}: from an arbitrary invariant state (whole array symbolic, collapsed or not, empty or cleared with stale cells) one AddWithCount and one same-kind MergeWith (every pair of limits in {1,2,3}, receiver/argument empty or not) are proven to keep len<=N and span<=N, conserve total weight, leave the argument unchanged and yield exactly the content folded at the collapsing edge; no operation can panic.",
             note="Same trusted base and weight/index abstractions as C04. Bounds: N<=4 (add), N<=3 (merge), new index within 24 of the window, merged windows within 12 of each other. N=2048 is outside. The empty-receiver merge panic found by this check was repaired (known_findings.json: fixed).",
             ref="§6 C05"),
 "C18": dict(text="Every codec obligation (round trip, framing with arbitrary prefix/trailing bytes, size functions, strict-prefix EOF, 32-bit overflow, varfloat (v+1)-1, flags, no panic / <=9 bytes read on arbitrary input) is proven by the solver for all 2^64 values of the encoded quantity on the SSA of the real functions; bounded only in the number of surrounding symbolic bytes.",
             note="Trusted: go/ssa construction, this engine's SSA semantics (validated by native replay of every counterexample), the SMT solvers; stubs: math.Float64bits/frombits (bit casts), bits.Leading/TrailingZeros64 (ite chains). Bounds: prefix <=2, trailing <=3 (quick) bytes, arbitrary input strings <=12 bytes.",
             ref="§6 C18"),
}
NOT_YET = "no check registered yet in this revision (see DESIGN.md §6 for the planned harness)"

def main():
    checks = []
    na = []
    for i in range(1, 21):
        pid = "C%02d" % i
        c = CHECKS.get(pid)
        if c is None or c.get("na"):
            na.append({"property_id": pid, "reason": (c or {}).get("na", NOT_YET)})
            continue
        checks.append({
            "property_id": pid,
            "quick_cmd": "./check %s --tier quick" % pid,
            "thorough_cmd": "./check %s --tier thorough" % pid,
            "evidence_file": "/verif/evidence/%s.json" % pid,
            "replay_cmd_template": "./check --replay {path}",
            "engine": "gosym",
            "level_claimed": {"category": "model_checking", "text": c["text"], "design_ref": c["ref"]},
            "level_note": c["note"],
            "technique": c.get("tech", TECH),
        })
    m = {
        "version": 1,
        "setup_cmd": "./setup.sh",
        "hooks": {
            "guard": "verif",
            "enable": "no source hooks in /repo: harness files (//go:build verif) are overlaid in-package from /verif/harness at load time (go/packages Overlay) and at replay time (go test -tags verif -overlay)",
            "baseline_off_cmd": BASE_OFF,
            "source_commits": [],
            "add_only": True,
        },
        "engines": [{
            "name": "gosym", "path": "/verif/engine",
            "serves_properties": [c["property_id"] for c in checks],
            "kind_free_text": "path-forking symbolic interpreter for go/ssa (x/tools v0.29.0) written for this task; integers as bit-vectors, float64 as SMT FloatingPoint or dyadic fixed point, concrete heap graph with symbolic leaves; queries to z3/cvc5; native replay of models via go test -overlay",
        }],
        "checks": checks,
        "not_applicable": na,
        "notes": "Exit codes of every check: 0 = all obligations proven within the stated bounds (known findings, if any, printed as KNOWN-FINDING lines); 1 = a counterexample that replays against the real build (VIOLATION line); 2 = inconclusive (solver unknown/timeout, unwinding bound, unsupported construct, vacuous harness, or a counterexample that did not replay) — never reported as success.",
    }
    json.dump(m, open("/verif/MANIFEST.json", "w"), indent=1)
    print("wrote MANIFEST.json: %d checks, %d not applicable" % (len(checks), len(na)))

if __name__ == "__main__":
    main()
