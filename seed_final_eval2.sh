#!/bin/bash
# usage: seed_final_eval2.sh <outdir> <prop> <n> <checkprop> <harness-regex>
# As seed_final_eval.sh, restricted to the harnesses of <checkprop>'s registered quick check that match the regex (a
# violation in any harness fails the whole check, so a detection by the subset is a detection by the check).
out="$1"; prop="$2"; n="$3"; cp="$4"; re="$5"
wt=$(mktemp -d /tmp/fewt.XXXXXX); rmdir $wt
git -C /repo worktree add -q --detach $wt HEAD || exit 3
trap 'git -C /repo worktree remove --force $wt >/dev/null 2>&1' EXIT
( cd $wt && git apply $out/$prop/$n/patch.diff ) || { echo "$(basename $out) $prop-$n APPLY-FAILED" >> /tmp/seed2res/final.log; exit 3; }
cd /verif
log=/tmp/seed2res/final_$(basename $out)_$prop-$n-$cp.out
VERIF_BUDGET_S=400 timeout 1500 ./check $cp -no-evidence -repo $wt -harness "$re" > $log 2>&1; rc=$?
v=$(grep -m1 -A1 '^VIOLATION' $log | tail -1 | sed 's/^ *//' | cut -c1-170)
echo "$(basename $out) $prop-$n check=$cp rc=$rc $v [subset: $re]" >> /tmp/seed2res/final.log
